#![allow(unused_parens)]
pub mod conv;
pub mod engine;
pub mod guard;
pub mod known;
pub mod props;
pub mod refmodel;
pub mod gen;
