#![allow(unused_parens)]
pub mod alloc_track;
pub mod conv;
pub mod engine;
pub mod fuzzing;
pub mod guard;
pub mod known;
pub mod props;
pub mod refmodel;
pub mod gen;

#[global_allocator]
static GLOBAL: alloc_track::Counting = alloc_track::Counting;
