//! Engine: runs sub-checks (proptest-generated or enumerated), counts, classifies, samples,
//! shrinks failures into replay files and writes the evidence record.

use proptest::strategy::{BoxedStrategy, Strategy};
use proptest::test_runner::{Config, RngAlgorithm, RngSeed, TestCaseError, TestError, TestRunner};
use serde::de::DeserializeOwned;
use serde::Serialize;
use serde_json::{json, Value};
use std::collections::hash_map::DefaultHasher;
use std::collections::{BTreeMap, HashSet};
use std::fmt::Debug;
use std::hash::{Hash, Hasher};
use std::sync::atomic::{AtomicBool, AtomicU64, Ordering};
use std::sync::Mutex;
use std::time::Instant;

pub const DISTINCT_CAP: usize = 1 << 22;

#[derive(Clone, Copy, PartialEq, Eq, Debug)]
pub enum Tier {
    Quick,
    Thorough,
}

impl Tier {
    pub fn pick(self, quick: u64, thorough: u64) -> u64 {
        match self {
            Tier::Quick => quick,
            Tier::Thorough => thorough,
        }
    }
    pub fn name(self) -> &'static str {
        match self {
            Tier::Quick => "quick",
            Tier::Thorough => "thorough",
        }
    }
}

/// Per-case observation sink: labels, non-triviality, known-finding exclusions.
/// Fixed-size storage: no allocation per case (enumerations run ~1e9 cases).
pub struct Obs {
    labels: [&'static str; 12],
    nlabels: usize,
    pub nontrivial: bool,
    excluded: [&'static str; 4],
    nexcluded: usize,
    /// strict = replay mode
    pub strict: bool,
}

impl Default for Obs {
    fn default() -> Self {
        Obs { labels: [""; 12], nlabels: 0, nontrivial: false, excluded: [""; 4], nexcluded: 0, strict: false }
    }
}

impl Obs {
    pub fn labels(&self) -> &[&'static str] {
        &self.labels[..self.nlabels]
    }
    pub fn excluded(&self) -> &[&'static str] {
        &self.excluded[..self.nexcluded]
    }
    pub fn label(&mut self, l: &'static str) {
        if !self.labels().iter().any(|x| std::ptr::eq(*x, l) || *x == l) && self.nlabels < 12 {
            self.labels[self.nlabels] = l;
            self.nlabels += 1;
        }
    }
    /// label + mark the case as non-trivial
    pub fn nt(&mut self, l: &'static str) {
        self.label(l);
        self.nontrivial = true;
    }
    pub fn nt_if(&mut self, c: bool, l: &'static str) {
        if c {
            self.nt(l)
        }
    }
    pub fn label_if(&mut self, c: bool, l: &'static str) {
        if c {
            self.label(l)
        }
    }
    /// the case (or part of it) was routed around a listed known finding
    pub fn excluded_known(&mut self, id: &'static str) {
        if !self.excluded().contains(&id) && self.nexcluded < 4 {
            self.excluded[self.nexcluded] = id;
            self.nexcluded += 1;
        }
    }
}

pub trait SubCheck: Sync {
    type Case: Debug + Clone + Serialize + DeserializeOwned + Send + Sync + 'static;
    fn name(&self) -> &'static str;
    /// generator; `None` for purely enumerated sub-checks
    fn strategy(&self) -> Option<BoxedStrategy<Self::Case>> {
        None
    }
    fn check(&self, case: &Self::Case, obs: &mut Obs) -> Result<(), String>;
    /// what makes a case non-trivial, in words
    fn rule(&self) -> &'static str;
}

#[derive(Default, Clone)]
pub struct SubStats {
    pub evaluations: u64,
    pub nontrivial: u64,
    pub distinct_nontrivial: u64,
    pub distinct_capped: bool,
    pub labels: BTreeMap<String, u64>,
    pub excluded_known: BTreeMap<String, u64>,
    pub samples: Vec<Value>,
    pub exhaustive: bool,
    pub rule: String,
    pub wall_s: f64,
    pub note: Option<String>,
}

pub struct Failure {
    pub property: String,
    pub subcheck: String,
    pub case: Value,
    pub message: String,
}

pub struct Ctx {
    pub property: &'static str,
    pub tier: Tier,
    pub seed: u64,
    pub threads: usize,
    pub subs: Mutex<Vec<(String, SubStats)>>,
    pub failures: Mutex<Vec<Failure>>,
    pub known_seen: Mutex<BTreeMap<String, String>>,
    pub assumptions: Mutex<Vec<String>>,
    pub start: Instant,
    /// max_shrink_iters for the next run_prop calls (expensive sub-checks lower it)
    pub shrink_iters: std::sync::atomic::AtomicU32,
}

fn hash_value<T: Serialize>(v: &T) -> u64 {
    let mut h = DefaultHasher::new();
    // bincode gives a canonical byte encoding for the case
    match bincode::serialize(v) {
        Ok(b) => b.hash(&mut h),
        Err(_) => serde_json::to_string(v).unwrap_or_default().hash(&mut h),
    }
    h.finish()
}

struct Acc {
    evaluations: u64,
    nontrivial: u64,
    distinct: HashSet<u64>,
    capped: bool,
    labels: Vec<(&'static str, u64)>,
    excluded: Vec<(&'static str, u64)>,
    samples: Vec<Value>,
    nt_samples: Vec<Value>,
}

fn bump(v: &mut Vec<(&'static str, u64)>, l: &'static str) {
    for e in v.iter_mut() {
        if std::ptr::eq(e.0, l) || e.0 == l {
            e.1 += 1;
            return;
        }
    }
    v.push((l, 1));
}

impl Acc {
    fn new() -> Self {
        Acc {
            evaluations: 0,
            nontrivial: 0,
            distinct: HashSet::new(),
            capped: false,
            labels: vec![],
            excluded: vec![],
            samples: vec![],
            nt_samples: vec![],
        }
    }
    fn record<C: Serialize>(&mut self, case: &C, obs: &Obs, want_hash: bool) {
        self.evaluations += 1;
        for l in obs.labels() {
            bump(&mut self.labels, l);
        }
        for l in obs.excluded() {
            bump(&mut self.excluded, l);
        }
        if obs.nontrivial {
            self.nontrivial += 1;
            if want_hash {
                if self.distinct.len() < DISTINCT_CAP {
                    self.distinct.insert(hash_value(case));
                } else {
                    self.capped = true;
                }
            }
            if self.nt_samples.len() < 4 {
                let mut v = serde_json::to_value(case).unwrap_or(Value::Null);
                if let Value::Object(ref mut m) = v {
                    m.insert("_labels".into(), json!(obs.labels()));
                } else {
                    v = json!({"case": v, "_labels": obs.labels()});
                }
                self.nt_samples.push(v);
            }
        } else if self.samples.len() < 2 {
            self.samples.push(serde_json::to_value(case).unwrap_or(Value::Null));
        }
    }
}

impl Ctx {
    pub fn new(property: &'static str, tier: Tier, seed: u64) -> Self {
        let threads = std::env::var("VERIF_THREADS")
            .ok()
            .and_then(|s| s.parse().ok())
            .unwrap_or_else(|| std::thread::available_parallelism().map(|n| n.get()).unwrap_or(4));
        Ctx {
            property,
            tier,
            seed,
            threads,
            subs: Mutex::new(vec![]),
            failures: Mutex::new(vec![]),
            known_seen: Mutex::new(BTreeMap::new()),
            assumptions: Mutex::new(vec![]),
            start: Instant::now(),
            shrink_iters: std::sync::atomic::AtomicU32::new(4096),
        }
    }

    pub fn n(&self, quick: u64, thorough: u64) -> u64 {
        self.tier.pick(quick, thorough)
    }

    pub fn assume(&self, s: &str) {
        let mut a = self.assumptions.lock().unwrap();
        if !a.iter().any(|x| x == s) {
            a.push(s.to_string());
        }
    }

    /// A listed known finding was re-confirmed on this run.
    pub fn known_finding(&self, id: &str, what: &str) {
        self.known_seen.lock().unwrap().insert(id.to_string(), what.to_string());
    }

    pub fn failed(&self) -> bool {
        !self.failures.lock().unwrap().is_empty()
    }

    fn merge(&self, name: &str, rule: &str, accs: Vec<Acc>, exhaustive: bool, t0: Instant) {
        let mut st = SubStats { rule: rule.to_string(), exhaustive, ..Default::default() };
        let mut all: HashSet<u64> = HashSet::new();
        for a in accs {
            st.evaluations += a.evaluations;
            st.nontrivial += a.nontrivial;
            st.distinct_capped |= a.capped;
            for (k, v) in a.labels {
                *st.labels.entry(k.to_string()).or_insert(0) += v;
            }
            for (k, v) in a.excluded {
                *st.excluded_known.entry(k.to_string()).or_insert(0) += v;
            }
            for s in a.nt_samples {
                if st.samples.len() < 6 {
                    st.samples.push(s);
                }
            }
            for s in a.samples {
                if st.samples.len() < 8 {
                    st.samples.push(s);
                }
            }
            if all.len() < DISTINCT_CAP {
                all.extend(a.distinct);
            } else {
                st.distinct_capped = true;
            }
        }
        st.distinct_nontrivial = all.len() as u64;
        st.wall_s = t0.elapsed().as_secs_f64();
        let mut subs = self.subs.lock().unwrap();
        if let Some((_, old)) = subs.iter_mut().find(|(n, _)| n == name) {
            // same sub-check driven twice (e.g. enumeration + random): add up
            old.evaluations += st.evaluations;
            old.nontrivial += st.nontrivial;
            old.distinct_nontrivial += st.distinct_nontrivial;
            old.distinct_capped |= st.distinct_capped;
            for (k, v) in st.labels {
                *old.labels.entry(k).or_insert(0) += v;
            }
            for (k, v) in st.excluded_known {
                *old.excluded_known.entry(k).or_insert(0) += v;
            }
            old.exhaustive |= st.exhaustive;
            old.wall_s += st.wall_s;
            for s in st.samples {
                if old.samples.len() < 10 {
                    old.samples.push(s);
                }
            }
        } else {
            subs.push((name.to_string(), st));
        }
    }

    /// For exhaustive enumerations where every case is distinct and non-trivial by rule, counted
    /// without hashing (the count is the number of enumerated cases flagged non-trivial).
    pub fn run_enum<S, I, F>(&self, sub: &S, chunks: usize, make: F, exhaustive: bool)
    where
        S: SubCheck,
        I: Iterator<Item = S::Case>,
        F: Fn(usize) -> I + Sync,
    {
        self.run_enum_opt(sub, chunks, make, exhaustive, false)
    }

    /// `distinct_by_construction`: the enumeration never repeats a case, so distinct non-trivial
    /// cases are counted by a counter instead of a hash set.
    pub fn run_enum_opt<S, I, F>(
        &self,
        sub: &S,
        chunks: usize,
        make: F,
        exhaustive: bool,
        distinct_by_construction: bool,
    ) where
        S: SubCheck,
        I: Iterator<Item = S::Case>,
        F: Fn(usize) -> I + Sync,
    {
        let t0 = Instant::now();
        let next = AtomicU64::new(0);
        let stop = AtomicBool::new(false);
        let fail: Mutex<Option<(S::Case, String)>> = Mutex::new(None);
        let mut accs: Vec<Acc> = vec![];
        let mut extra = 0u64;
        std::thread::scope(|sc| {
            let mut hs = vec![];
            for _ in 0..self.threads.min(chunks.max(1)) {
                hs.push(sc.spawn(|| {
                    let mut acc = Acc::new();
                    let mut dn = 0u64;
                    loop {
                        let c = next.fetch_add(1, Ordering::Relaxed) as usize;
                        if c >= chunks || stop.load(Ordering::Relaxed) {
                            break;
                        }
                        for case in make(c) {
                            let mut obs = Obs::default();
                            let r = crate::guard::guarded_check(|| sub.check(&case, &mut obs));
                            match r {
                                Ok(()) => {
                                    if obs.nontrivial && distinct_by_construction {
                                        dn += 1;
                                    }
                                    acc.record(&case, &obs, !distinct_by_construction);
                                }
                                Err(m) => {
                                    let mut f = fail.lock().unwrap();
                                    if f.is_none() {
                                        *f = Some((case.clone(), m));
                                    }
                                    stop.store(true, Ordering::Relaxed);
                                    break;
                                }
                            }
                            if acc.evaluations & 0xfff == 0 && stop.load(Ordering::Relaxed) {
                                break;
                            }
                        }
                    }
                    (acc, dn)
                }));
            }
            for h in hs {
                let (acc, dn) = h.join().expect("enum worker");
                accs.push(acc);
                extra += dn;
            }
        });
        self.merge(sub.name(), sub.rule(), accs, exhaustive, t0);
        if extra > 0 {
            let mut subs = self.subs.lock().unwrap();
            if let Some((_, st)) = subs.iter_mut().find(|(n, _)| n == sub.name()) {
                st.distinct_nontrivial += extra;
            }
        }
        if let Some((case, msg)) = fail.into_inner().unwrap() {
            self.push_failure(sub.name(), &case, msg);
        }
    }

    /// proptest-driven sub-check; `cases` is split over the worker threads, each with its own
    /// deterministic seed derived from (VERIF_SEED, sub-check name, worker index).
    pub fn run_prop<S: SubCheck>(&self, sub: &S, cases: u64) {
        let t0 = Instant::now();
        if sub.strategy().is_none() {
            return;
        }
        let workers = (self.threads as u64).min(cases.max(1)).max(1);
        let per = (cases + workers - 1) / workers;
        let stop = AtomicBool::new(false);
        let fail: Mutex<Option<(S::Case, String)>> = Mutex::new(None);
        let mut accs = vec![];
        let name_hash = {
            let mut h = DefaultHasher::new();
            sub.name().hash(&mut h);
            self.property.hash(&mut h);
            h.finish()
        };
        std::thread::scope(|sc| {
            let mut hs = vec![];
            for w in 0..workers {
                let stop = &stop;
                let fail = &fail;
                hs.push(sc.spawn(move || {
                    let mut acc = Acc::new();
                    let strat = sub.strategy().expect("strategy");
                    let seed = self
                        .seed
                        .wrapping_mul(0x9E37_79B9_7F4A_7C15)
                        .wrapping_add(name_hash)
                        .wrapping_add(w.wrapping_mul(0xD1B5_4A32_D192_ED03));
                    let cfg = Config {
                        cases: per as u32,
                        failure_persistence: None,
                        rng_seed: RngSeed::Fixed(seed),
                        rng_algorithm: RngAlgorithm::ChaCha,
                        max_shrink_iters: self.shrink_iters.load(Ordering::Relaxed),
                        max_global_rejects: 1 << 20,
                        verbose: 0,
                        ..Config::default()
                    };
                    let mut runner = TestRunner::new(cfg);
                    let failed_once = std::cell::Cell::new(false);
                    let acc_cell = std::cell::RefCell::new(&mut acc);
                    let res = runner.run(&strat, |case| {
                        if stop.load(Ordering::Relaxed) && !failed_once.get() {
                            // another worker failed: finish quickly
                            return Ok(());
                        }
                        let mut obs = Obs::default();
                        let r = crate::guard::guarded_check(|| sub.check(&case, &mut obs));
                        match r {
                            Ok(()) => {
                                if !failed_once.get() {
                                    acc_cell.borrow_mut().record(&case, &obs, true);
                                }
                                Ok(())
                            }
                            Err(m) => {
                                failed_once.set(true);
                                Err(TestCaseError::fail(m))
                            }
                        }
                    });
                    if let Err(TestError::Fail(reason, case)) = res {
                        stop.store(true, Ordering::Relaxed);
                        let mut f = fail.lock().unwrap();
                        if f.is_none() {
                            *f = Some((case, reason.message().to_string()));
                        }
                    } else if let Err(TestError::Abort(reason)) = res {
                        eprintln!("proptest abort in {}: {}", sub.name(), reason.message());
                    }
                    acc
                }));
            }
            for h in hs {
                accs.push(h.join().expect("prop worker"));
            }
        });
        self.merge(sub.name(), sub.rule(), accs, false, t0);
        if let Some((case, msg)) = fail.into_inner().unwrap() {
            self.push_failure(sub.name(), &case, msg);
        }
    }

    /// run a list of explicit cases (seeds, corpus files, committed replays)
    pub fn run_cases<S: SubCheck>(&self, sub: &S, cases: Vec<S::Case>) {
        let n = cases.len();
        let chunk = (n + self.threads - 1) / self.threads.max(1);
        let cases = &cases;
        self.run_enum(
            sub,
            self.threads,
            |c| {
                let lo = (c * chunk).min(n);
                let hi = ((c + 1) * chunk).min(n);
                cases[lo..hi].iter().cloned()
            },
            false,
        );
    }

    pub fn push_failure<C: Serialize>(&self, sub: &str, case: &C, message: String) {
        self.failures.lock().unwrap().push(Failure {
            property: self.property.to_string(),
            subcheck: sub.to_string(),
            case: serde_json::to_value(case).unwrap_or(Value::Null),
            message,
        });
    }

    pub fn add_note(&self, sub: &str, note: &str) {
        let mut subs = self.subs.lock().unwrap();
        if let Some((_, st)) = subs.iter_mut().find(|(n, _)| n == sub) {
            st.note = Some(note.to_string());
        }
    }
}


/// Type-erased sub-check for replay.
pub trait DynSub: Sync {
    fn name(&self) -> &'static str;
    fn replay(&self, case: &Value) -> Result<(), String>;
}

impl<S: SubCheck> DynSub for S {
    fn name(&self) -> &'static str {
        SubCheck::name(self)
    }
    fn replay(&self, case: &Value) -> Result<(), String> {
        let c: S::Case = serde_json::from_value(case.clone()).map_err(|e| format!("replay decode: {e}"))?;
        let mut obs = Obs { strict: true, ..Default::default() };
        crate::guard::guarded_check(|| self.check(&c, &mut obs))
    }
}

/// Helper: map a proptest strategy into a BoxedStrategy
pub fn bx<S: Strategy + 'static>(s: S) -> BoxedStrategy<S::Value>
where
    S::Value: Debug,
{
    s.boxed()
}

#[macro_export]
macro_rules! ensure {
    ($c:expr, $($a:tt)*) => { if !($c) { return Err(format!($($a)*)); } };
}

#[macro_export]
macro_rules! ensure_eq {
    ($a:expr, $b:expr, $($m:tt)*) => {{
        let (a, b) = (&$a, &$b);
        if a != b { return Err(format!("{}: got {:?}, expected {:?}", format!($($m)*), a, b)); }
    }};
}
