//! Structured generators for zone models and POSIX TZ rules (shared by C05, C16, C18).
use crate::refmodel::zone::{Day, Indicators, Model, Rule, Version, ZType};
use proptest::prelude::*;
use serde::{Deserialize, Serialize};

pub fn offset() -> BoxedStrategy<i32> {
    prop_oneof![
        4 => (-12i32..=14).prop_map(|h| h * 3600),
        2 => (-47i32..=56).prop_map(|q| q * 900),
        2 => -86_399i32..=86_399,
        1 => proptest::sample::select(vec![0, 1, -1, 3600, -3600, 86_399, -86_399, 1800, 20_700, -12_600, 45_900]),
    ]
    .boxed()
}
const ABBRS: [&str; 14] = ["LMT", "EST", "EDT", "CET", "CEST", "+03", "-0330", "AAAAAA", "XYZ", "GMT", "+0545", "BST", "WIB", "A-B+C"];
pub fn ztype() -> BoxedStrategy<ZType> {
    (offset(), any::<bool>(), 0usize..ABBRS.len()).prop_map(|(utoff, isdst, a)| ZType { utoff, isdst, abbr: ABBRS[a].to_string() }).boxed()
}

pub fn rule_day() -> BoxedStrategy<Day> {
    prop_oneof![
        4 => (1u8..=12, 1u8..=5, 0u8..=6).prop_map(|(m, w, d)| Day::Mwd(m, w, d)),
        2 => (1u16..=365).prop_map(Day::J1),
        2 => (0u16..=365).prop_map(Day::J0),
    ]
    .boxed()
}
fn rule_time(extended: bool) -> BoxedStrategy<i32> {
    if extended {
        prop_oneof![3 => Just(7200), 3 => (0i32..=24).prop_map(|h| h * 3600), 2 => 0i32..=86_400, 2 => -167 * 3600..=167 * 3600].boxed()
    } else {
        prop_oneof![3 => Just(7200), 3 => (0i32..=24).prop_map(|h| h * 3600), 2 => 0i32..=86_400].boxed()
    }
}
/// offsets that a TZ string can express and FixedOffset can hold
fn rule_offset() -> BoxedStrategy<i32> {
    prop_oneof![4 => (-12i32..=14).prop_map(|h| h * 3600), 2 => (-47i32..=56).prop_map(|q| q * 900), 1 => -80_000i32..=80_000].boxed()
}
fn rule_name() -> BoxedStrategy<String> {
    proptest::sample::select(vec!["AAA", "EST", "EDT", "CET", "CEST", "NZST", "NZDT", "+03", "-0330", "ABCDEF", "A-B+C", "+01", "ABCDEFG", "+001234"]).prop_map(String::from).boxed()
}
/// alternate-time rule whose transitions lie well inside the calendar year
pub fn alt_rule(extended: bool) -> BoxedStrategy<Rule> {
    (rule_offset(), prop_oneof![3 => Just(3600i32), 1 => Just(-3600), 1 => Just(1800), 1 => Just(7200), 1 => -5400i32..=5400], rule_name(), rule_name(), rule_day(), rule_time(extended), rule_day(), rule_time(extended))
        .prop_map(|(so, delta, sn, dn, start, start_time, end, end_time)| {
            let delta = if delta == 0 { 3600 } else { delta };
            let dn = if dn == sn { "DDD".to_string() } else { dn };
            let std = ZType { utoff: so, isdst: false, abbr: sn };
            let dst = ZType { utoff: (so + delta).clamp(-86_000, 86_000), isdst: true, abbr: dn };
            let r = Rule::Alt { std: std.clone(), dst: dst.clone(), start, start_time, end, end_time };
            if r.well_inside_year() {
                r
            } else {
                // keep the generated offsets and names, fall back to days that are safely inside the year,
                // preserving hemisphere (start before or after end) from the generated days
                let north = matches!((start, end), (Day::Mwd(a, ..), Day::Mwd(b, ..)) if a <= b) || matches!((start, end), (Day::J0(a), Day::J0(b)) | (Day::J1(a), Day::J1(b)) if a <= b);
                let (s, e) = if north { (Day::Mwd(3, 2, 0), Day::Mwd(11, 1, 0)) } else { (Day::Mwd(10, 1, 0), Day::Mwd(3, 3, 0)) };
                Rule::Alt { std, dst, start: s, start_time: start_time.clamp(0, 86_400), end: e, end_time: end_time.clamp(0, 86_400) }
            }
        })
        .boxed()
}
/// daylight time that ends the moment it starts, or one second / minute / hour / two hours later: same rule
/// day, end time = start time + the saving, each read on its own clock. Used for the
/// instant direction only (C05 posix_rules).
pub fn short_dst_rule() -> BoxedStrategy<Rule> {
    (alt_rule(false), 0usize..6, 3600i32..=43_200).prop_filter_map("positive saving", |(r, k, st)| {
        if let Rule::Alt { std, dst, start, .. } = r {
            let delta = dst.utoff - std.utoff;
            if delta <= 0 { return None; }
            let extra = [0, 0, 1, 60, 3600, 7200][k];
            let r = Rule::Alt { std, dst, start, start_time: st, end: start, end_time: st + delta + extra };
            if r.edges_inside_year() { Some(r) } else { None }
        } else { None }
    }).boxed()
}
pub fn fixed_rule() -> BoxedStrategy<Rule> {
    (rule_offset(), rule_name()).prop_map(|(utoff, abbr)| Rule::Fixed(ZType { utoff, isdst: false, abbr })).boxed()
}

#[derive(Clone, Debug, Serialize, Deserialize)]
pub struct ZoneFile {
    pub model: Model,
    pub version: Version,
    pub ind: Indicators,
    pub explicit_footer: bool,
    /// bytes of unused (but well-formed) designations appended to the abbreviation table
    #[serde(default)]
    pub extra_chars: usize,
    /// leap-second records (occurrence in the leap-time scale, total correction); the model's transition
    /// times stay Unix times and are written in the leap-time scale
    #[serde(default)]
    pub leaps: Vec<(i64, i32)>,
}
impl ZoneFile {
    pub fn bytes(&self) -> Vec<u8> {
        crate::refmodel::zone::write_tzif_leap(&self.model, self.version, self.ind, self.explicit_footer, self.extra_chars, &self.leaps)
    }
}

/// a file with many types and a large designation table (up to and beyond 256 bytes)
pub fn big_table_file() -> BoxedStrategy<ZoneFile> {
    (zone_file(20), 8usize..=36, proptest::sample::select(vec![0usize, 0, 1, 4, 60, 200, 300]), any::<u64>())
        .prop_map(|(mut f, ntypes, extra, salt)| {
            // distinct six-letter abbreviations: 7 table bytes each, every index stays below 256
            while f.model.types.len() < ntypes {
                let k = f.model.types.len() as u64;
                let abbr: String = (0..6).map(|j| (b'A' + ((salt >> (j * 5)).wrapping_add(k * 7 + j) % 26) as u8) as char).collect();
                let utoff = ((salt.wrapping_mul(k + 3) % 170_000) as i32 - 85_000) / 900 * 900;
                f.model.types.push(ZType { utoff, isdst: k % 3 == 0, abbr });
            }
            // let some transitions use the new types (keep the last one: footer consistency)
            let n = f.model.transitions.len();
            for (i, t) in f.model.transitions.iter_mut().enumerate() {
                if i + 1 < n && (salt >> (i % 60)) & 1 == 1 { t.1 = (salt as usize).wrapping_add(i * 13) % ntypes; }
            }
            // re-space: type changes altered the offset jumps
            let mut prev_off = f.model.types[0].utoff as i64;
            let mut prev_jump = 0i64;
            let mut last_t = i64::MIN;
            for t in f.model.transitions.iter_mut() {
                let off = f.model.types[t.1].utoff as i64;
                let jump = (off - prev_off).abs();
                if last_t != i64::MIN && t.0 - last_t < jump + prev_jump + 2 { t.0 = last_t + jump + prev_jump + 2 + 86_400; }
                last_t = t.0; prev_off = off; prev_jump = jump;
            }
            if f.model.footer.is_some() { f.model.footer = None; if f.version == Version::V1 { f.version = Version::V2; } }
            f.extra_chars = extra;
            f
        })
        .boxed()
}

/// structured zone model + file parameters. `max_transitions` bounds the transition count.
pub fn zone_file(max_transitions: usize) -> BoxedStrategy<ZoneFile> {
    let version = prop_oneof![1 => Just(Version::V1), 2 => Just(Version::V2), 2 => Just(Version::V3)];
    let ind = proptest::sample::select(vec![Indicators::None, Indicators::Wall, Indicators::Std, Indicators::Ut, Indicators::StdOnly, Indicators::UtZerosOnly]);
    let start = prop_oneof![
        3 => -2_208_988_800i64..2_000_000_000,           // 1900..2033
        2 => -(1i64 << 31)..(1i64 << 31),
        1 => -(1i64 << 40)..(1i64 << 40),
        1 => -(1i64 << 59)..-(1i64 << 58),
    ];
    let delta = prop_oneof![
        4 => 2 * 86_400i64..400 * 86_400,      // spaced
        3 => 0i64..3600,                       // tight: added to |delta offset| + 2
        1 => 86_400i64 * 365..(1i64 << 36),
    ];
    let tr = proptest::collection::vec((delta, any::<u8>(), any::<bool>()), 0..=max_transitions);
    (version, ind, proptest::collection::vec(ztype(), 1..=6), start, tr, 0u8..4, any::<bool>())
        .prop_flat_map(|(version, ind, types, start, tr, footer_kind, explicit)| {
            let ext = version == Version::V3;
            let footer = match (version, footer_kind) {
                (Version::V1, _) | (_, 0) => Just(None).boxed(),
                (_, 1) => fixed_rule().prop_map(Some).boxed(),
                _ => alt_rule(ext).prop_map(Some).boxed(),
            };
            (Just((version, ind, types, start, tr, explicit)), footer)
        })
        .prop_map(|((version, ind, mut types, start, tr, explicit), footer)| {
            // transitions: strictly increasing; "tight" deltas are widened by |offset change| + 2
            let mut transitions: Vec<(i64, usize)> = vec![];
            let mut t = start;
            let mut prev_off = types[0].utoff;
            let mut prev_jump = 0i64;
            for (i, (d, ty, tight)) in tr.iter().enumerate() {
                let idx = *ty as usize % types.len();
                // "tight": the skipped/repeated wall-clock intervals of consecutive transitions touch
                // but never overlap in wall-clock space (consecutive folds need the sum of both jumps)
                let jump = (types[idx].utoff - prev_off).abs() as i64;
                let step = if *tight && *d < 3600 { jump + prev_jump + 2 + d } else { (*d).max(2 * 86_400) };
                prev_jump = jump;
                t = if i == 0 { start } else { t.saturating_add(step) };
                if t >= (1i64 << 40) { break; }
                transitions.push((t, idx));
                prev_off = types[idx].utoff;
            }
            let mut version = version;
            if version == Version::V1 && transitions.iter().any(|x| x.0 < i32::MIN as i64 || x.0 > i32::MAX as i64) {
                version = Version::V2;
            }
            // footer must agree with the last transition
            // a footer rule is evaluated at the last transition: real writers put that transition in
            // the civil era, so drop the footer when the last transition is astronomically far away
            let far = transitions.last().map(|l| l.0.abs() > 8_000_000_000_000).unwrap_or(false);
            let footer = if version == Version::V1 || far { None } else { footer };
            // real files place the last transition months away from the next rule transition; keep the
            // footer only when no rule transition follows the last transition within ten days
            let footer = match (&footer, transitions.last()) {
                (Some(r), Some(l)) => {
                    let y = crate::refmodel::cal::civil_from_days(l.0.div_euclid(86_400)).0;
                    if r.instants_around(y).iter().any(|&t| t > l.0 - 10 * 86_400 && t != l.0 && t < l.0 + 10 * 86_400) { None } else { footer }
                }
                _ => footer,
            };
            if let (Some(rule), Some(last)) = (&footer, transitions.last().copied()) {
                let want = rule.type_at(last.0).clone();
                let pos = types.iter().position(|x| *x == want).unwrap_or_else(|| { types.push(want.clone()); types.len() - 1 });
                let n = transitions.len();
                transitions[n - 1].1 = pos;
                // both rule types should be nameable from the file's type list (as zic does)
                if let Rule::Alt { std, dst, .. } = rule {
                    for x in [std, dst] { if !types.contains(x) { types.push(x.clone()); } }
                }
            } else if let (Some(rule), None) = (&footer, transitions.last()) {
                // no transitions: the rule alone governs; list its types
                match rule {
                    Rule::Fixed(x) => { if !types.contains(x) { types.push(x.clone()); } }
                    Rule::Alt { std, dst, .. } => { for x in [std, dst] { if !types.contains(x) { types.push(x.clone()); } } }
                }
            }
            // the footer fix-up may have changed the last transition's offset: restore the spacing
            // invariant (no overlapping skipped/repeated intervals) by dropping its predecessors
            loop {
                let n = transitions.len();
                if n < 2 { break; }
                let off = |k: usize| types[transitions[k].1].utoff as i64;
                let before = if n >= 3 { off(n - 3) } else { types[0].utoff as i64 };
                let need = (off(n - 1) - off(n - 2)).abs() + (off(n - 2) - before).abs() + 2;
                if transitions[n - 1].0 - transitions[n - 2].0 >= need { break; }
                transitions.remove(n - 2);
            }
            ZoneFile { model: Model { types, transitions, footer }, version, ind, explicit_footer: explicit, extra_chars: 0, leaps: vec![] }
        })
        .boxed()
}


/// leap-second records for a zone file: 1..=27 occurrences at non-negative leap times, at least 2.5e6 s
/// apart, corrections stepping by +1 (mostly) or -1 from zero, every occurrence more than 1000 s away
/// from every transition (in either scale)
pub fn leap_records(transitions: &[(i64, usize)]) -> BoxedStrategy<Vec<(i64, i32)>> {
    let ts: Vec<i64> = transitions.iter().map(|t| t.0).collect();
    (proptest::collection::vec((2_500_000i64..60_000_000, prop::bool::weighted(0.85)), 1..=27), 0i64..400_000_000)
        .prop_map(move |(steps, first)| {
            let mut out: Vec<(i64, i32)> = vec![];
            let mut at = first;
            let mut corr = 0i32;
            for (gap, up) in steps {
                at += gap;
                while ts.iter().any(|t| (t - at).abs() <= 1100) { at += 2300; }
                corr += if up { 1 } else { -1 };
                if out.is_empty() && corr == 0 { corr = 1; }
                out.push((at, corr));
            }
            out
        })
        .boxed()
}

/// a file whose explicit transitions end exactly on (or 1-3 s before) a transition of its own footer rule,
/// as zic writes them, optionally with leap-second records
pub fn last_on_rule_file() -> BoxedStrategy<ZoneFile> {
    (alt_rule(false).prop_filter("rule well inside the year", |r| r.well_inside_year() && matches!(r, Rule::Alt { std, dst, .. } if std.utoff != dst.utoff)), 1975i64..2090, 0usize..6, 0i64..=3, any::<bool>(), proptest::sample::select(vec![Version::V2, Version::V3]), any::<bool>())
        .prop_flat_map(|(rule, y0, n, d, with_leaps, version, explicit)| {
            let (std, dst) = match &rule { Rule::Alt { std, dst, .. } => (std.clone(), dst.clone()), Rule::Fixed(t) => (t.clone(), t.clone()) };
            let other = ZType { utoff: std.utoff - 1800, isdst: false, abbr: "LMT".into() };
            let types = vec![other, std.clone(), dst.clone()];
            let probe = Model { types: vec![std.clone(), dst.clone()], transitions: vec![], footer: Some(rule.clone()) };
            // the rule's own change points of the years y0 ..= y0 + n/2
            let mut pts: Vec<i64> = vec![];
            for y in y0..=y0 + (n as i64) / 2 + 1 {
                pts.extend(probe.change_points_near(crate::refmodel::cal::days_from_civil(y, 7, 1) * 86_400));
            }
            pts.sort();
            pts.dedup();
            pts.retain(|p| *p >= crate::refmodel::cal::days_from_civil(y0, 1, 1) * 86_400);
            pts.truncate(n + 1);
            let type_at = |u: i64| if probe.offset_at(u) == dst.utoff { 2usize } else { 1usize };
            let mut transitions: Vec<(i64, usize)> = vec![];
            if let Some(first) = pts.first() { transitions.push((first - 40_000_000, 0)); }
            for p in &pts { transitions.push((*p, type_at(*p))); }
            // last explicit transition d seconds early: it then carries the type in effect before the switch
            if d > 0 && transitions.len() >= 2 {
                let k = transitions.len() - 1;
                let at = transitions[k].0 - d;
                transitions[k] = (at, type_at(at));
            }
            let m = Model { types, transitions: transitions.clone(), footer: Some(rule) };
            let leaps = if with_leaps { leap_records(&transitions) } else { Just(vec![]).boxed() };
            (Just(m), leaps, Just(version), Just(explicit))
        })
        .prop_map(|(model, leaps, version, explicit_footer)| ZoneFile { model, version, ind: Indicators::None, explicit_footer, extra_chars: 0, leaps })
        .boxed()
}
