//! Shared proptest strategies (edge-biased integers, dates, times, offsets).
use proptest::prelude::*;
use crate::refmodel::{cal, inst};

/// edge-biased i64: uniform, bit-length stratified, and near the given anchors
pub fn i64_edges(anchors: Vec<i64>) -> BoxedStrategy<i64> {
    let a2 = anchors.clone();
    prop_oneof![
        3 => any::<i64>(),
        3 => (0u32..64, any::<i64>(), any::<bool>()).prop_map(|(b, v, neg)| {
            let m = if b == 0 { 0 } else { v & ((1i64 << b).wrapping_sub(1)) };
            if neg { m.wrapping_neg() } else { m }
        }),
        4 => (proptest::sample::select(a2), -3i64..=3).prop_map(|(a, d)| a.saturating_add(d)),
        1 => proptest::sample::select(vec![i64::MIN, i64::MIN + 1, -1, 0, 1, i64::MAX - 1, i64::MAX]),
        // counts whose quotient by a time unit sits at a 32-bit boundary (give or take the epoch shift):
        // where an internal narrowing after a division would go wrong
        2 => (proptest::sample::select(vec![1i128 << 31, -(1i128 << 31), 1i128 << 32, -(1i128 << 32), (1i128 << 31) - 719_163, -(1i128 << 31) - 719_163, (1i128 << 31) - 719_528]),
              prop_oneof![2 => -3i128..=3, 1 => -800_000i128..=800_000],
              proptest::sample::select(vec![1i128, 60, 3600, 86_400, 1000, 86_400_000, 1_000_000, 86_400_000_000, 1_000_000_000]),
              any::<u64>())
            .prop_map(|(b, k, unit, r)| ((b + k) * unit + (r as i128 % unit)).clamp(i64::MIN as i128, i64::MAX as i128) as i64),
    ]
    .boxed()
}

pub fn i32_edges() -> BoxedStrategy<i32> {
    prop_oneof![
        2 => any::<i32>(),
        3 => (0u32..32, any::<i32>(), any::<bool>()).prop_map(|(b, v, neg)| {
            let m = if b == 0 { 0 } else { v & ((1i32 << b).wrapping_sub(1)) };
            if neg { m.wrapping_neg() } else { m }
        }),
        2 => proptest::sample::select(vec![i32::MIN, i32::MIN + 1, -2, -1, 0, 1, 2, i32::MAX - 1, i32::MAX]),
    ]
    .boxed()
}

pub fn u32_edges(anchors: Vec<u32>) -> BoxedStrategy<u32> {
    let mut a = anchors;
    a.extend([0, 1, 2, u32::MAX, u32::MAX - 1]);
    prop_oneof![
        2 => any::<u32>(),
        3 => (0u32..32, any::<u32>()).prop_map(|(b, v)| if b == 0 { 0 } else { v & ((1u32 << b).wrapping_sub(1)) }),
        4 => (proptest::sample::select(a), -2i64..=2).prop_map(|(a, d)| (a as i64 + d).clamp(0, u32::MAX as i64) as u32),
    ]
    .boxed()
}

/// unix day inside the supported range, biased to range ends, year ends, epoch, leap days
pub fn day() -> BoxedStrategy<i64> {
    let (lo, hi) = (cal::min_day(), cal::max_day());
    prop_oneof![
        4 => lo..=hi,
        2 => (0i64..4000).prop_map(move |d| lo + d),
        2 => (0i64..4000).prop_map(move |d| hi - d),
        2 => -40000i64..40000,
        // around year boundaries anywhere
        3 => (cal::MIN_YEAR..=cal::MAX_YEAR, -3i64..=3).prop_map(move |(y, d)| (cal::days_from_civil(y, 1, 1) + d).clamp(lo, hi)),
        // month ends 28..31 and Feb 29
        3 => (cal::MIN_YEAR..=cal::MAX_YEAR, 1u32..=12, 0u32..4).prop_map(|(y, m, k)| {
            let l = cal::days_in_month(y, m);
            cal::days_from_civil(y, m, l - k.min(l - 1))
        }),
        1 => (-1i64..=10000, 0i64..366).prop_map(move |(y, o)| (cal::days_from_civil(y, 1, 1) + o).clamp(lo, hi)),
    ]
    .boxed()
}

/// (secs of day, frac < 1e9) biased
pub fn tod() -> BoxedStrategy<(u32, u32)> {
    let secs = prop_oneof![
        3 => 0u32..86_400,
        2 => proptest::sample::select(vec![0u32, 1, 59, 60, 3599, 3600, 43_199, 43_200, 86_340, 86_398, 86_399]),
        1 => (0u32..1440).prop_map(|m| m * 60 + 59),
    ];
    let frac = prop_oneof![
        3 => 0u32..1_000_000_000,
        3 => proptest::sample::select(vec![0u32, 1, 999, 1000, 999_999, 1_000_000, 500_000_000, 999_999_000, 999_999_999]),
        1 => (0u32..1000).prop_map(|m| m * 1_000_000),
        1 => (0u32..1_000_000).prop_map(|m| m * 1000),
    ];
    (secs, frac).boxed()
}

/// non-leap instant inside the supported range, as model Ndt
pub fn ndt() -> BoxedStrategy<inst::Ndt> {
    (day(), tod()).prop_map(|(day, (secs, frac))| inst::Ndt { day, secs, frac }).boxed()
}

/// offset seconds strictly inside (-86400, 86400), biased
pub fn offset_secs() -> BoxedStrategy<i32> {
    prop_oneof![
        3 => -86_399i32..=86_399,
        3 => (-23i32..=23).prop_map(|h| h * 3600),
        2 => (-95i32..=95).prop_map(|q| q * 900),
        2 => proptest::sample::select(vec![0, 1, -1, 59, -59, 60, -60, 3599, -3599, 3600, -3600, 86_399, -86_399, 86_340, -86_340]),
    ]
    .boxed()
}

/// whole-minute offsets within +/-23:59
pub fn offset_minutes() -> BoxedStrategy<i32> {
    prop_oneof![
        3 => (-1439i32..=1439).prop_map(|m| m * 60),
        2 => (-23i32..=23).prop_map(|h| h * 3600),
        1 => proptest::sample::select(vec![0, 60, -60, 1439 * 60, -1439 * 60, 1800, -1800]),
    ]
    .boxed()
}
pub mod zone;
