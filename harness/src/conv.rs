//! Conversions between reference values and chrono values (through constructors that C01/C07
//! verify exhaustively).
use crate::refmodel::{cal, inst::Ndt, inst};
use chrono::{NaiveDate, NaiveDateTime, NaiveTime, TimeDelta, Datelike, Timelike};

pub fn date(z: i64) -> NaiveDate {
    let (y, m, d) = cal::civil_from_days(z);
    NaiveDate::from_ymd_opt(y as i32, m, d).unwrap_or_else(|| panic!("harness: date({z}) = {y}-{m}-{d} not constructible"))
}
pub fn date_opt(z: i64) -> Option<NaiveDate> {
    if !cal::in_range_day(z) { return None; }
    let (y, m, d) = cal::civil_from_days(z);
    NaiveDate::from_ymd_opt(y as i32, m, d)
}
pub fn time(secs: u32, frac: u32) -> NaiveTime {
    // a leap representation on a second other than :59 is only reachable through with_nanosecond
    NaiveTime::from_num_seconds_from_midnight_opt(secs, frac % 1_000_000_000)
        .and_then(|t| if frac >= 1_000_000_000 { t.with_nanosecond(frac) } else { Some(t) })
        .unwrap_or_else(|| panic!("harness: time({secs},{frac})"))
}
pub fn ndt(n: Ndt) -> NaiveDateTime { date(n.day).and_time(time(n.secs, n.frac)) }
pub fn ndt_of_inst(t: i128) -> NaiveDateTime { ndt(inst::split(t)) }

pub fn unix_day_of(d: NaiveDate) -> i64 { d.num_days_from_ce() as i64 - cal::CE_SHIFT }
/// model view of a chrono NaiveDateTime, read through accessors only
pub fn model_of(n: &NaiveDateTime) -> Ndt {
    let z = cal::days_from_civil(n.year() as i64, n.month(), n.day());
    Ndt { day: z, secs: n.num_seconds_from_midnight(), frac: n.nanosecond() }
}
pub fn td(ns: i128) -> TimeDelta {
    let s = ns.div_euclid(inst::NS) as i64;
    let f = ns.rem_euclid(inst::NS) as u32;
    TimeDelta::new(s, f).unwrap_or_else(|| panic!("harness: td({ns})"))
}
pub fn td_ns(d: &TimeDelta) -> i128 {
    d.num_seconds() as i128 * inst::NS + d.subsec_nanos() as i128
}
