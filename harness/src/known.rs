//! Known findings: `known_findings.json` (committed, never written at run time) lists entries
//! `{id, property, status: "known"|"fixed", signature, what, commit?}`. A `known` entry is active
//! only while its fixed probe still reproduces the deviation; cases matching its signature
//! predicate (written next to the oracle) are then routed around the strict oracle and counted.

use serde::Deserialize;
use std::collections::BTreeMap;
use std::sync::atomic::{AtomicBool, Ordering};
use std::sync::{Mutex, OnceLock};

#[derive(Deserialize, Clone, Debug)]
pub struct Entry {
    pub id: String,
    pub property: Vec<String>,
    pub status: String,
    pub signature: String,
    pub what: String,
    #[serde(default)]
    pub commit: Option<String>,
}

static ENTRIES: OnceLock<Vec<Entry>> = OnceLock::new();
static ACTIVE: OnceLock<Mutex<BTreeMap<String, bool>>> = OnceLock::new();
static STRICT: AtomicBool = AtomicBool::new(false);

pub fn load(path: &str) {
    let v: Vec<Entry> = match std::fs::read_to_string(path) {
        Ok(s) => {
            #[derive(Deserialize)]
            struct F { findings: Vec<Entry> }
            serde_json::from_str::<F>(&s).map(|f| f.findings).unwrap_or_else(|e| {
                eprintln!("known_findings.json unreadable: {e}");
                std::process::exit(2)
            })
        }
        Err(_) => vec![],
    };
    let _ = ENTRIES.set(v);
    let _ = ACTIVE.set(Mutex::new(BTreeMap::new()));
}

pub fn set_strict(s: bool) { STRICT.store(s, Ordering::Relaxed); }

pub fn listed_known(id: &str) -> Option<&'static Entry> {
    ENTRIES.get().and_then(|v| v.iter().find(|e| e.id == id && e.status == "known"))
}

/// Called once per run per finding by the property driver: `still_there` is the result of the
/// finding's fixed probe against the current tree.
pub fn activate(id: &str, still_there: bool) {
    if let Some(m) = ACTIVE.get() {
        m.lock().unwrap().insert(id.to_string(), listed_known(id).is_some() && still_there);
    }
}

/// Is the exclusion for finding `id` in force (listed as known, probe confirmed, not strict)?
pub fn active(id: &str) -> bool {
    if STRICT.load(Ordering::Relaxed) { return false; }
    ACTIVE.get().map(|m| *m.lock().unwrap().get(id).unwrap_or(&false)).unwrap_or(false)
}
