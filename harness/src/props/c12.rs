//! C12 Every strftime specifier renders the documented field.
use crate::engine::{Ctx, DynSub, Obs, SubCheck};
use crate::gen;
use crate::guard::call;
use crate::known;
use crate::props::c04::shift;
use crate::props::c07::T;
use crate::refmodel::inst::Ndt;
use crate::refmodel::strftime::{self as rf, Out, Val};
use crate::refmodel::cal;
use crate::{conv, ensure_eq};
use chrono::{FixedOffset, TimeZone};
use proptest::prelude::*;
use serde::{Deserialize, Serialize};
use std::fmt::Write;

/// a value to format: kind 0 NaiveDate, 1 NaiveTime, 2 NaiveDateTime, 3 DateTime<FixedOffset>
/// (`day`/`t` are the *wall clock*; for kind 3 the wall date may lie in the one-day headroom)
#[derive(Clone, Copy, Debug, Serialize, Deserialize)]
pub struct V {
    pub kind: u8,
    pub day: i64,
    pub t: T,
    pub off: i32,
}
#[derive(Clone, Debug, Serialize, Deserialize)]
pub struct FCase {
    pub fmt: String,
    pub v: V,
}

pub const SPECS: &[&str] = &[
    "Y", "C", "y", "q", "m", "b", "B", "h", "d", "e", "a", "A", "w", "u", "U", "W", "G", "g", "V", "j", "D", "x", "F", "v", "H", "k", "I", "l", "P", "p", "M", "S", "f",
    ".f", ".3f", ".6f", ".9f", "3f", "6f", "9f", "R", "T", "X", "r", "Z", "z", ":z", "::z", ":::z", "c", "+", "s", "t", "n", "%",
];
pub const MODS: &[&str] = &["", "-", "_", "0"];

/// format `v` with `fmt` through `write!`, so a formatting failure is a value
pub fn chrono_format(fmt: &str, v: &V) -> Result<Result<String, ()>, String> {
    let t = v.t.build()?;
    let mut buf = String::new();
    let r = match v.kind {
        0 => { let d = conv::date(v.day); call("NaiveDate::format", || write!(buf, "{}", d.format(fmt)))? }
        1 => call("NaiveTime::format", || write!(buf, "{}", t.format(fmt)))?,
        2 => { let n = conv::date(v.day).and_time(t); call("NaiveDateTime::format", || write!(buf, "{}", n.format(fmt)))? }
        _ => {
            let fo = FixedOffset::east_opt(v.off).ok_or("harness: offset")?;
            let u = shift(Ndt { day: v.day, secs: v.t.secs, frac: v.t.frac }, -(v.off as i64));
            let dt = fo.from_utc_datetime(&conv::ndt(u));
            call("DateTime::format", || write!(buf, "{}", dt.format(fmt)))?
        }
    };
    Ok(r.map(|_| buf).map_err(|_| ()))
}

/// the same rendering through every other public route: item lists (borrowed, collected, owned),
/// `DelayedFormat` constructors, `write_to`, and the deprecated free functions `format::format` /
/// `format::format_item`
pub fn chrono_format_routes(fmt: &str, v: &V) -> Result<Vec<(&'static str, Result<String, ()>)>, String> {
    use chrono::format::{DelayedFormat, Item, StrftimeItems};
    let t = v.t.build()?;
    let date = if v.kind != 1 { Some(v.day) } else { None };
    let fo = FixedOffset::east_opt(if v.kind == 3 { v.off } else { 0 }).ok_or("harness: offset")?;
    // wall-clock date/time as the item formatter receives them
    let (nd, nt): (Option<chrono::NaiveDate>, Option<chrono::NaiveTime>) = match v.kind {
        0 => (Some(conv::date(v.day)), None),
        1 => (None, Some(t)),
        _ => (if cal::in_range_day(v.day) { Some(conv::date(v.day)) } else { None }, Some(t)),
    };
    let mut out: Vec<(&'static str, Result<String, ()>)> = vec![];
    if date.is_some() && nd.is_none() {
        return Ok(out); // headroom wall date: not constructible outside DateTime
    }
    let off = if v.kind == 3 { Some((fo.to_string(), fo)) } else { None };
    struct Shim<'a> { nd: Option<chrono::NaiveDate>, nt: Option<chrono::NaiveTime>, off: Option<(String, FixedOffset)>, items: &'a [Item<'a>], each: bool }
    impl std::fmt::Display for Shim<'_> {
        #[allow(deprecated)]
        fn fmt(&self, f: &mut std::fmt::Formatter) -> std::fmt::Result {
            if self.each {
                for it in self.items { chrono::format::format_item(f, self.nd.as_ref(), self.nt.as_ref(), self.off.as_ref(), it)?; }
                Ok(())
            } else {
                chrono::format::format(f, self.nd.as_ref(), self.nt.as_ref(), self.off.as_ref(), self.items.iter())
            }
        }
    }
    let render = |name: &'static str, items: &[Item<'_>], out: &mut Vec<(&'static str, Result<String, ()>)>| -> Result<(), String> {
        let mk = || match &off { Some((_, o)) => DelayedFormat::new_with_offset(nd, nt, o, items.iter()), None => DelayedFormat::new(nd, nt, items.iter()) };
        let mut a = String::new();
        let r = call(name, || write!(a, "{}", mk()))?;
        out.push((name, r.map(|_| a).map_err(|_| ())));
        let mut b = String::new();
        let r = call("DelayedFormat::write_to", || mk().write_to(&mut b))?;
        out.push(("write_to", r.map(|_| b).map_err(|_| ())));
        Ok(())
    };
    // borrowed, lazily parsed
    let lazy: Vec<Item<'_>> = call("StrftimeItems::new", || StrftimeItems::new(fmt).collect())?;
    render("items (lazy)", &lazy, &mut out)?;
    match call("StrftimeItems::parse", || StrftimeItems::new(fmt).parse())? {
        Ok(items) => {
            render("items (parse)", &items, &mut out)?;
            // the value's own format_with_items, handed an item list the caller parsed
            let mut a = String::new();
            let r = match v.kind {
                0 => { let d = conv::date(v.day); call("NaiveDate::format_with_items", || write!(a, "{}", d.format_with_items(items.iter())))? }
                1 => call("NaiveTime::format_with_items", || write!(a, "{}", t.format_with_items(items.iter())))?,
                2 => { let n = conv::date(v.day).and_time(t); call("NaiveDateTime::format_with_items", || write!(a, "{}", n.format_with_items(items.iter())))? }
                _ => {
                    let u = shift(Ndt { day: v.day, secs: v.t.secs, frac: v.t.frac }, -(v.off as i64));
                    let dt = fo.from_utc_datetime(&conv::ndt(u));
                    call("DateTime::format_with_items", || write!(a, "{}", dt.format_with_items(items.iter())))?
                }
            };
            out.push(("format_with_items", r.map(|_| a).map_err(|_| ())));
        }
        Err(_) => out.push(("items (parse)", Err(()))),
    }
    match call("StrftimeItems::parse_to_owned", || StrftimeItems::new(fmt).parse_to_owned())? {
        Ok(items) => {
            render("items (parse_to_owned)", &items, &mut out)?;
            for each in [false, true] {
                let shim = Shim { nd, nt, off: off.clone(), items: &items, each };
                let mut a = String::new();
                let r = call("format::format / format_item", || write!(a, "{shim}"))?;
                out.push((if each { "format::format_item" } else { "format::format" }, r.map(|_| a).map_err(|_| ())));
            }
        }
        Err(_) => out.push(("items (parse_to_owned)", Err(()))),
    }
    Ok(out)
}

/// two deprecated routes with their own expectations: the free function prints the zone *name* it is
/// handed for %Z, and the deprecated `Date<Tz>` formats the date it holds whatever its offset
#[allow(deprecated)]
pub fn deprecated_route_checks(fmt: &str, v: &V, main: &Result<String, ()>) -> Result<(), String> {
    use chrono::format::{Item, StrftimeItems};
    use chrono::TimeZone;
    struct Shim<'a> { nt: chrono::NaiveTime, off: (String, FixedOffset), items: &'a [Item<'a>], each: bool }
    impl std::fmt::Display for Shim<'_> {
        fn fmt(&self, f: &mut std::fmt::Formatter) -> std::fmt::Result {
            if self.each {
                for it in self.items { chrono::format::format_item(f, None, Some(&self.nt), Some(&self.off), it)?; }
                Ok(())
            } else {
                chrono::format::format(f, None, Some(&self.nt), Some(&self.off), self.items.iter())
            }
        }
    }
    if v.kind == 3 {
        let items: Vec<Item> = StrftimeItems::new("%H|%Z|%M").collect();
        let fo = FixedOffset::east_opt(v.off).ok_or("harness: offset")?;
        let nt = v.t.build()?;
        for each in [false, true] {
            let mut a = String::new();
            call("format::format with a zone name", || write!(a, "{}", Shim { nt, off: ("XYZ".to_string(), fo), items: &items, each }))?.map_err(|_| "format::format failed on %H|%Z|%M")?;
            ensure_eq!(a, format!("{:02}|XYZ|{:02}", v.t.secs / 3600, v.t.secs / 60 % 60), "format::format{} with the zone name XYZ", if each { "_item" } else { "" });
        }
    }
    if v.kind == 0 && cal::in_range_day(v.day) {
        if let Ok(text) = main {
            let d = conv::date(v.day);
            for off in [-18_000, 34_200, 0] {
                let fo = FixedOffset::east_opt(off).ok_or("harness: offset")?;
                if let Some(zd) = fo.from_local_date(&d).single() {
                    let mut a = String::new();
                    let r = call("Date<Tz>::format", || write!(a, "{}", zd.format(fmt)))?;
                    ensure_eq!(r.map(|_| a).map_err(|_| ()), Ok(text.clone()), "Date<FixedOffset>({off})::format({fmt:?}) of day {} vs NaiveDate::format", v.day);
                }
            }
        }
    }
    Ok(())
}

pub fn model_val(v: &V) -> Val {
    Val {
        day: if v.kind != 1 { Some(v.day) } else { None },
        time: if v.kind != 0 { Some((v.t.secs, v.t.frac)) } else { None },
        off: if v.kind == 3 { Some(v.off) } else { None },
    }
}

fn uses_century(fmt: &str) -> bool {
    rf::tokenize(fmt).map(|t| t.iter().any(|x| matches!(x, rf::Tok::Num(rf::Num::Century, _)))).unwrap_or(false)
}
fn uses_padded_timestamp(fmt: &str) -> bool {
    rf::tokenize(fmt).map(|t| t.iter().any(|x| matches!(x, rf::Tok::Num(rf::Num::Timestamp, p) if *p != rf::Pad::None))).unwrap_or(false)
}

pub struct Format;
impl SubCheck for Format {
    type Case = FCase;
    fn name(&self) -> &'static str {
        "format"
    }
    fn rule(&self) -> &'static str {
        "case = (format string, value of kind date | time | naive date-time | zone-aware date-time); the text written by format() equals the reference rendering of the documented specifier table, and formatting fails exactly for unknown/malformed specifiers or fields the value lacks; non-trivial = value with a negative or >= 5-digit year, a week-0/53 date, hour 0 or 12, leap second, offset with seconds, headroom wall clock, or a non-default padding modifier, or an expected failure"
    }
    fn strategy(&self) -> Option<BoxedStrategy<FCase>> {
        Some((format_string(), value()).prop_map(|(fmt, v)| FCase { fmt, v }).boxed())
    }
    fn check(&self, c: &FCase, obs: &mut Obs) -> Result<(), String> {
        let v = &c.v;
        // classification
        if v.kind != 1 {
            let f = cal::fields(v.day);
            obs.nt_if(f.year < 0 || f.year >= 10_000, "signed_or_long_year");
            let (wu, ww) = (cal::week_from(v.day, 6), cal::week_from(v.day, 0));
            obs.nt_if(wu == 0 || wu == 53 || ww == 0 || ww == 53 || f.iso_week == 53 || f.iso_year != f.year, "week_0_or_53");
            obs.nt_if(!cal::in_range_day(v.day), "headroom");
        }
        if v.kind != 0 {
            obs.nt_if(v.t.secs / 3600 % 12 == 0, "hour_0_or_12");
            obs.nt_if(v.t.leap(), "leap_second");
        }
        obs.nt_if(v.kind == 3 && v.off % 60 != 0, "offset_with_seconds");
        obs.nt_if(c.fmt.contains("%-") || c.fmt.contains("%_") || c.fmt.contains("%0"), "padding_modifier");
        let toks = rf::tokenize(&c.fmt);
        let exp = match &toks {
            Ok(t) => rf::render(t, &model_val(v)),
            Err(()) => Out::Error,
        };
        obs.nt_if(exp == Out::Error, "expected_failure");
        obs.label_if(!c.fmt.is_ascii(), "multibyte_literal");
        let got = chrono_format(&c.fmt, v)?;
        match exp {
            Out::Unspecified => obs.label("unspecified_by_documentation"),
            Out::Error => {
                if let Ok(s) = got {
                    return Err(format!("format({:?}) on {v:?} printed {s:?}; it must fail (unknown specifier or a field the value does not have)", c.fmt));
                }
            }
            Out::Text(ref e) => {
                ensure_eq!(got, Ok(e.clone()), "format({:?}) on {v:?}", c.fmt);
            }
        }
        deprecated_route_checks(&c.fmt, v, &got)?;
        // every other public route writes the same text (or fails as well)
        if exp != Out::Unspecified {
            for (route, r) in chrono_format_routes(&c.fmt, v)? {
                ensure_eq!(r, got, "format({:?}) on {v:?} through {route} vs the format() method", c.fmt);
            }
        }
        let _ = known::active("");
        Ok(())
    }
}

// ---------------------------------------------------------------------------------------------
fn spec_piece() -> BoxedStrategy<String> {
    prop_oneof![
        8 => (proptest::sample::select(MODS.to_vec()), proptest::sample::select(SPECS.to_vec())).prop_map(|(m, s)| {
            // modifiers only in front of plain letters (a modifier before `.f`/`:z`/`3f` is its own near-miss below)
            format!("%{m}{s}")
        }),
        3 => proptest::sample::select(SPECS.to_vec()).prop_map(|s| format!("%{s}")),
        2 => "[ -$&-~]{1,4}",                                  // ASCII literal without '%'
        1 => proptest::sample::select(vec!["é", "日本", "😽", "\u{3000}", " ", "  ", "\t", "\n", "%%", "T", ":", "-", "/"]).prop_map(String::from),
        // must-fail shapes
        1 => proptest::sample::select(vec!["%", "%.", "%:", "%.4f", "%.f3", "%#a", "%#Y", "%-", "%_", "%0", "%#", "%-a", "%0B", "%_D", "%-T", "%0c", "%-+", "%_Z", "%0z", "%-p", "%-%", "%-t", "%E", "%O", "%i", "%J", "%K", "%L", "%N", "%o", "%Q", "%1f", "%2f", "%4f", "%5f", "%7f", "%8f", "%.1f", "%.10f", "%::::z", "%é", "%😽", "% "]).prop_map(String::from),
        1 => Just("%#z".to_string()),
    ]
    .boxed()
}
pub fn format_string() -> BoxedStrategy<String> {
    // a long literal run (around the 255/256/1024 marks, ASCII or multi-byte) followed by a specifier
    let long = (proptest::sample::select(vec![200usize, 254, 255, 256, 257, 300, 511, 512, 1023, 1024, 1025]), proptest::sample::select(vec!["x", "é", "日", "-", "0"]), spec_piece(), prop_oneof![1 => Just(String::new()), 1 => spec_piece()])
        .prop_map(|(n, ch, tail, head)| format!("{head}{}{tail}", ch.repeat(n)));
    prop_oneof![
        1 => long,
        3 => spec_piece(),
        4 => proptest::collection::vec(spec_piece(), 1..6).prop_map(|v| v.concat()),
        1 => ".{0,12}",
        1 => "[%a-zA-Z.:#0_\\-+ ]{0,10}",
    ]
    .boxed()
}

/// days: first/last 10 days of years covering all 14 year types, signed/long years, whole range
pub fn fmt_day() -> BoxedStrategy<i64> {
    let edge = (prop_oneof![3 => 1995i64..2023, 1 => -6i64..=6, 1 => 9994i64..=10_006, 1 => -10_006i64..=-9994, 1 => proptest::sample::select(vec![cal::MIN_YEAR, cal::MAX_YEAR, -262_000, 262_000, 99_999, 100_000, -99_999, -100_000])], 0i64..10, any::<bool>())
        .prop_map(|(y, k, end)| if end { cal::days_from_civil(y, 12, 31) - k } else { cal::days_from_civil(y, 1, 1) + k });
    prop_oneof![4 => edge, 3 => gen::day(), 2 => crate::props::c09::text_day()].boxed()
}
pub fn fmt_time() -> BoxedStrategy<T> {
    prop_oneof![
        3 => crate::props::c09::text_time(),
        // "x.5" fractions: half a millisecond / microsecond / other decimal unit (digit-selection boundaries)
        2 => (0u32..86_400, 0u32..9, 1u32..2000, proptest::sample::select(vec![5u32, 1, 9, 25, 75])).prop_map(|(secs, j, k, d)| {
            let frac = ((k as u64 * 10 + d as u64) * 10u64.pow(j) % 1_000_000_000) as u32;
            T { secs, frac }
        }),
        2 => (proptest::sample::select(vec![0u32, 11, 12, 13, 23]), 0u32..3600, 0u32..1_000_000_000).prop_map(|(h, s, frac)| T { secs: h * 3600 + s, frac }),
        1 => crate::props::c07::tod(),
    ]
    .boxed()
}
pub fn fmt_offset() -> BoxedStrategy<i32> {
    prop_oneof![
        2 => gen::offset_minutes(),
        2 => gen::offset_secs(),
        // the +/-:30 rounding boundary of minute precision
        2 => (-1438i32..=1438, proptest::sample::select(vec![29, 30, 31, 59, 1])).prop_map(|(m, s)| { let v = m * 60; if v < 0 { v - s } else { v + s } }),
    ]
    .boxed()
}
pub fn value() -> BoxedStrategy<V> {
    (prop_oneof![1 => Just(0u8), 1 => Just(1u8), 2 => Just(2u8), 4 => Just(3u8)], fmt_day(), fmt_time(), fmt_offset(), 0u8..8)
        .prop_map(|(kind, day, t, off, hr)| {
            let mut v = V { kind, day, t, off };
            if kind == 3 {
                // wall clock must come from a representable instant; sometimes push it into the headroom
                if hr == 0 {
                    let (u_day, wall_secs) = if off > 0 { (cal::max_day(), 86_399i64 + 1 + (t.secs as i64 % off as i64)) } else if off < 0 { (cal::min_day(), -1 - (t.secs as i64 % (-off) as i64)) } else { (day, t.secs as i64) };
                    if off != 0 {
                        v.day = u_day + wall_secs.div_euclid(86_400);
                        v.t = T { secs: wall_secs.rem_euclid(86_400) as u32, frac: t.frac % 1_000_000_000 };
                    }
                } else {
                    let u = shift(Ndt { day, secs: t.secs, frac: t.frac }, -(off as i64));
                    if !crate::props::c04::representable(u) {
                        v.off = 0;
                    }
                }
            }
            v
        })
        .boxed()
}

pub fn subs() -> Vec<Box<dyn DynSub>> {
    vec![Box::new(Format)]
}

/// fixed value list for the exhaustive table sweep
fn table_values(seed: u64, n_random: usize) -> Vec<V> {
    let mut out = vec![];
    let mut years: Vec<i64> = (1995..2023).collect();
    years.extend([-5, -1, 0, 1, 5, 9999, 10_000, -9999, -10_000, 12_345, -12_345, cal::MIN_YEAR, cal::MAX_YEAR]);
    let times = [T { secs: 0, frac: 0 }, T { secs: 43_200, frac: 26_490_000 }, T { secs: 86_399, frac: 1_999_999_999 }, T { secs: 3 * 3600 + 59, frac: 7000 }, T { secs: 23 * 3600 + 34 * 60 + 59, frac: 1_000_000_000 }, T { secs: 12 * 3600 + 34 * 60 + 56, frac: 123_456_789 }];
    let offs = [0, 34_200, -34_200, 3600, 34_215, -34_229, 34_230, 86_399, -86_399, 1];
    let mut i = 0usize;
    for &y in &years {
        for k in 0..10 {
            for end in [false, true] {
                let day = if end { cal::days_from_civil(y, 12, 31) - k } else { cal::days_from_civil(y, 1, 1) + k };
                i += 1;
                let kind = [3u8, 2, 3, 0, 3, 2, 3, 1][i % 8];
                let t = times[i % times.len()];
                let mut off = offs[(i / 3) % offs.len()];
                if kind == 3 && !crate::props::c04::representable(shift(Ndt { day, secs: t.secs, frac: t.frac }, -(off as i64))) {
                    off = 0;
                }
                out.push(V { kind, day, t, off });
            }
        }
    }
    // a deterministic pseudo-random tail (splitmix) over the whole range
    let mut x = seed.wrapping_add(0x9E37_79B9_7F4A_7C15);
    let mut next = || {
        x = x.wrapping_add(0x9E37_79B9_7F4A_7C15);
        let mut z = x;
        z = (z ^ (z >> 30)).wrapping_mul(0xBF58_476D_1CE4_E5B9);
        z = (z ^ (z >> 27)).wrapping_mul(0x94D0_49BB_1331_11EB);
        z ^ (z >> 31)
    };
    let span = (cal::max_day() - cal::min_day() - 4) as u64;
    for _ in 0..n_random {
        let day = cal::min_day() + 2 + (next() % span) as i64;
        let secs = (next() % 86_400) as u32;
        let frac = (next() % 1_000_000_000) as u32;
        let off = (next() % 172_799) as i32 - 86_399;
        out.push(V { kind: 3, day, t: T { secs, frac }, off });
    }
    out
}

fn probe_f7() -> bool {
    // %C of year -99 is documented as "-1"
    chrono::NaiveDate::from_ymd_opt(-99, 1, 1).map(|d| d.format("%C").to_string() != "-1").unwrap_or(false)
}
fn probe_f17() -> bool {
    chrono::DateTime::from_timestamp(17_193_599, 0).map(|d| d.format("%0s").to_string() != "17193599").unwrap_or(false)
}

pub fn run(ctx: &Ctx) {
    let _ = (probe_f7(), probe_f17(), uses_century(""), uses_padded_timestamp(""));
    ctx.assume("Where the documentation fixes a minimum width but not the interplay of sign and padding, the reference pads on the left to the width with the sign counted inside the width, except for %Y/%G whose mandatory '+'/'-' outside 0..=9999 is not counted (documented-plus-observed rule, DESIGN.md C12)");
    ctx.assume("%Z is asserted only for whole-minute offsets (documented as identical to %:z); %y/%g only for years >= 0; %#z is parse-only and not asserted");
    // (i) the whole documented table x 4 modifiers x the fixed value list
    let vals = table_values(ctx.seed, ctx.n(4000, 200_000) as usize);
    let vals = &vals;
    ctx.run_enum_opt(&Format, SPECS.len() * MODS.len(), |k| {
        let fmt = format!("%{}{}", MODS[k % MODS.len()], SPECS[k / MODS.len()]);
        vals.iter().map(move |v| FCase { fmt: fmt.clone(), v: *v })
    }, false, false);
    // (ii)+(iii) must-fail shapes and random format strings
    ctx.run_prop(&Format, ctx.n(5_000_000, 200_000_000));
}
