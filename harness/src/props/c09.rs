//! C09 Default text forms parse back to the same value.
use crate::engine::{Ctx, DynSub, Obs, SubCheck, Tier};
use crate::gen;
use crate::guard::call;
use crate::known;
use crate::props::c01::WD;
use crate::props::c04::shift;
use crate::props::c07::T;
use crate::props::c19::MONTHS;
use crate::refmodel::inst::Ndt;
use crate::refmodel::{cal, fmt as rfmt};
use crate::{conv, ensure_eq};
use chrono::{DateTime, FixedOffset, Month, NaiveDate, NaiveDateTime, NaiveTime, TimeZone, Utc, Weekday};
use proptest::prelude::*;

/// days biased to the years the text form branches on
pub fn text_day() -> BoxedStrategy<i64> {
    let around = |y: i64| (Just(y), 0i64..366).prop_map(|(y, o)| (cal::days_from_civil(y, 1, 1) + o % cal::days_in_year(y)).clamp(cal::min_day(), cal::max_day()));
    prop_oneof![
        3 => gen::day(),
        1 => around(-1), 1 => around(0), 1 => around(1), 1 => around(999), 1 => around(9999), 1 => around(10_000), 1 => around(-9999), 1 => around(-10_000),
        1 => around(99_999), 1 => around(100_000), 1 => around(cal::MIN_YEAR), 1 => around(cal::MAX_YEAR),
        2 => (cal::days_from_civil(0, 1, 1)..=cal::days_from_civil(9999, 12, 31)),
    ]
    .boxed()
}
/// times with every sub-second class and leap seconds on second 59 only
pub fn text_time() -> BoxedStrategy<T> {
    let frac = prop_oneof![
        2 => Just(0u32),
        2 => (0u32..1000).prop_map(|m| m * 1_000_000),
        2 => (0u32..1_000_000).prop_map(|m| m * 1000),
        2 => 0u32..1_000_000_000,
        1 => proptest::sample::select(vec![1u32, 999_999_999, 1_000_000, 1000, 100_000_000, 999_000_000, 999_999_000]),
    ];
    (prop_oneof![3 => 0u32..86_400, 2 => (0u32..1440).prop_map(|m| m * 60 + 59), 1 => proptest::sample::select(vec![0u32, 86_399, 43_200])], frac, prop::bool::weighted(0.4))
        .prop_map(|(secs, frac, leap)| T { secs, frac: if leap && secs % 60 == 59 { frac + 1_000_000_000 } else { frac } })
        .boxed()
}

fn classify(day: i64, t: Option<T>, off: Option<i32>, obs: &mut Obs) {
    let (y, _, _) = cal::civil_from_days(day);
    obs.nt_if(!(0..=9999).contains(&y), "year_outside_0_9999");
    if let Some(t) = t {
        obs.nt_if(t.frac % 1_000_000_000 != 0, "fraction");
        obs.nt_if(t.frac >= 1_000_000_000, "leap_second");
    }
    if let Some(o) = off {
        obs.nt_if(o < 0, "negative_offset");
    }
}

// ---------------------------------------------------------------------------------------------
pub struct Date;
impl SubCheck for Date {
    type Case = i64;
    fn name(&self) -> &'static str {
        "date"
    }
    fn rule(&self) -> &'static str {
        "case = a date; Display and Debug have the reference shape (sign exactly for years outside 0..=9999) and parse back to the date; non-trivial = year outside 0..=9999"
    }
    fn strategy(&self) -> Option<BoxedStrategy<i64>> {
        Some(text_day())
    }
    fn check(&self, &z: &i64, obs: &mut Obs) -> Result<(), String> {
        classify(z, None, None, obs);
        obs.nt_if(cal::civil_from_days(z).0.abs() >= 10_000, "five_or_six_digit_year");
        let d = conv::date(z);
        let s = call("Display", || d.to_string())?;
        ensure_eq!(s, rfmt::date(z), "Display of day {z}");
        let g = call("Debug", || format!("{d:?}"))?;
        ensure_eq!(g, s, "Debug of day {z}");
        ensure_eq!(call("FromStr", || s.parse::<NaiveDate>())?.ok(), Some(d), "{s:?}.parse::<NaiveDate>()");
        Ok(())
    }
}

pub struct Time;
impl SubCheck for Time {
    type Case = T;
    fn name(&self) -> &'static str {
        "time"
    }
    fn rule(&self) -> &'static str {
        "case = a time of day (leap seconds on second 59 only); Display = Debug = HH:MM:SS with the fewest of 0/3/6/9 fraction digits, second 60 for a leap second, and parses back; non-trivial = non-zero fraction or leap second"
    }
    fn strategy(&self) -> Option<BoxedStrategy<T>> {
        Some(text_time())
    }
    fn check(&self, t: &T, obs: &mut Obs) -> Result<(), String> {
        classify(0, Some(*t), None, obs);
        let x = t.build()?;
        let s = call("Display", || x.to_string())?;
        ensure_eq!(s, rfmt::time(t.secs, t.frac), "Display of {t:?}");
        ensure_eq!(call("Debug", || format!("{x:?}"))?, s, "Debug of {t:?}");
        ensure_eq!(call("FromStr", || s.parse::<NaiveTime>())?.ok(), Some(x), "{s:?}.parse::<NaiveTime>()");
        Ok(())
    }
}

pub struct DateTimeText;
impl SubCheck for DateTimeText {
    type Case = (i64, T, i32);
    fn name(&self) -> &'static str {
        "datetime"
    }
    fn rule(&self) -> &'static str {
        "case = (date, time, whole-minute offset): NaiveDateTime, DateTime<Utc> and DateTime<FixedOffset> Display and Debug have the reference shape and parse back to the same value (same instant and offset); non-trivial = year outside 0..=9999, fraction, leap second, negative offset"
    }
    fn strategy(&self) -> Option<BoxedStrategy<Self::Case>> {
        // values whose fields repeat one another (all two-digit fields equal; fraction digits spelling the
        // date, the clock time or the second of the day)
        let echo = (1i64..=12, proptest::sample::select(vec![1900i64, 2000, 0, -100, 12_300]), any::<bool>(), 0u8..6, 0u32..1000, gen::offset_minutes()).prop_map(|(v, base, pm, k, r, off)| {
            let y = base + v;
            let z = cal::days_from_civil(y, v as u32, v as u32);
            let h = (v % 12 + if pm { 12 } else { 0 }) as u32;
            let secs = h * 3600 + v as u32 * 60 + v as u32;
            let ymd = (y.rem_euclid(10_000) * 10_000 + v * 100 + v) as u32; // YYYYMMDD
            let frac = match k {
                0 => 0,
                1 => (ymd % 100_000_000) * 10 + r % 10,
                2 => ((y.rem_euclid(10_000) * 1000 + cal::ordinal(z) as i64) as u32 % 10_000_000) * 100 + r % 100,
                3 => (v as u32 * 10_000 + v as u32 * 100 + h) * 1000,
                4 => (secs * 10_000) % 1_000_000_000,
                _ => (h * 10_000 + v as u32 * 100 + v as u32) * 1000,
            };
            (z, T { secs, frac }, off)
        });
        Some(prop_oneof![12 => (text_day(), text_time(), gen::offset_minutes()), 1 => echo].boxed())
    }
    fn check(&self, &(z, t, off): &Self::Case, obs: &mut Obs) -> Result<(), String> {
        classify(z, Some(t), Some(off), obs);
        let n = conv::date(z).and_time(t.build()?);
        let (ds, ts) = (rfmt::date(z), rfmt::time(t.secs, t.frac));
        // naive
        let dbg = call("Debug", || format!("{n:?}"))?;
        ensure_eq!(dbg, format!("{ds}T{ts}"), "NaiveDateTime Debug");
        ensure_eq!(call("FromStr", || dbg.parse::<NaiveDateTime>())?.ok(), Some(n), "{dbg:?}.parse::<NaiveDateTime>()");
        let disp = call("Display", || n.to_string())?;
        ensure_eq!(disp, format!("{ds} {ts}"), "NaiveDateTime Display");
        if known::active("F14") {
            obs.excluded_known("F14");
        } else {
            ensure_eq!(call("FromStr", || disp.parse::<NaiveDateTime>())?.ok(), Some(n), "{disp:?}.parse::<NaiveDateTime>() (Display form)");
        }
        // UTC
        let u = Utc.from_utc_datetime(&n);
        let ud = call("Display", || u.to_string())?;
        ensure_eq!(ud, format!("{ds} {ts} UTC"), "DateTime<Utc> Display");
        ensure_eq!(call("FromStr", || ud.parse::<DateTime<Utc>>())?.ok(), Some(u), "{ud:?}.parse::<DateTime<Utc>>()");
        let ug = call("Debug", || format!("{u:?}"))?;
        ensure_eq!(ug, format!("{ds}T{ts}Z"), "DateTime<Utc> Debug");
        ensure_eq!(call("FromStr", || ug.parse::<DateTime<Utc>>())?.ok(), Some(u), "{ug:?}.parse::<DateTime<Utc>>()");
        ensure_eq!(call("FromStr", || ug.parse::<DateTime<chrono::Local>>())?.ok().map(|x| x.naive_utc()), Some(n), "{ug:?}.parse::<DateTime<Local>>() instant");
        let uf = call("FromStr", || ug.parse::<DateTime<FixedOffset>>())?.ok();
        ensure_eq!(uf.map(|x| (x.naive_utc(), x.offset().local_minus_utc())), Some((n, 0)), "{ug:?}.parse::<DateTime<FixedOffset>>()");
        // fixed offset: (z, t) is the wall clock; the value exists iff wall - offset is representable
        let fo = FixedOffset::east_opt(off).ok_or("harness: offset")?;
        let wall = Ndt { day: z, secs: t.secs, frac: t.frac };
        if crate::props::c04::representable(shift(wall, -(off as i64))) {
            let f = fo.from_local_datetime(&n).single().ok_or("harness: from_local_datetime")?;
            for (form, s, exp) in [
                ("Display", call("Display", || f.to_string())?, format!("{ds} {ts} {}", rfmt::offset(off))),
                ("Debug", call("Debug", || format!("{f:?}"))?, format!("{ds}T{ts}{}", rfmt::offset(off))),
            ] {
                ensure_eq!(s, exp, "DateTime<FixedOffset> {form}");
                let p = call("FromStr", || s.parse::<DateTime<FixedOffset>>())?.ok();
                ensure_eq!(p.map(|x| (x.naive_utc(), x.offset().local_minus_utc())), Some((f.naive_utc(), off)), "{s:?}.parse::<DateTime<FixedOffset>>() ({form} form)");
                ensure_eq!(call("FromStr", || s.parse::<DateTime<Utc>>())?.ok().map(|x| x.naive_utc()), Some(f.naive_utc()), "{s:?}.parse::<DateTime<Utc>>()");
                ensure_eq!(call("FromStr", || s.parse::<DateTime<chrono::Local>>())?.ok().map(|x| x.naive_utc()), Some(f.naive_utc()), "{s:?}.parse::<DateTime<Local>>() instant");
            }
        } else {
            obs.label("wall_clock_unrepresentable_at_offset");
        }
        Ok(())
    }
}

pub struct Small;
impl SubCheck for Small {
    type Case = (u8, i32);
    fn name(&self) -> &'static str {
        "offset_weekday_month"
    }
    fn rule(&self) -> &'static str {
        "case = (0 offset | 1 weekday | 2 month, index): all 2879 whole-minute offsets, 7 weekdays, 12 months enumerated; Display/Debug parse back; every case non-trivial"
    }
    fn check(&self, &(k, i): &Self::Case, obs: &mut Obs) -> Result<(), String> {
        obs.nt("enumerated");
        match k {
            0 => {
                let off = i * 60;
                let fo = FixedOffset::east_opt(off).ok_or("harness: offset")?;
                let s = call("Display", || fo.to_string())?;
                ensure_eq!(s, rfmt::offset(off), "FixedOffset Display");
                ensure_eq!(call("Debug", || format!("{fo:?}"))?, s, "FixedOffset Debug");
                ensure_eq!(call("FromStr", || s.parse::<FixedOffset>())?.ok(), Some(fo), "{s:?}.parse::<FixedOffset>()");
            }
            1 => {
                let w = WD[i as usize];
                for s in [w.to_string(), format!("{w:?}")] {
                    ensure_eq!(call("FromStr", || s.parse::<Weekday>())?.ok(), Some(w), "{s:?}.parse::<Weekday>()");
                }
            }
            _ => {
                let m = MONTHS[i as usize];
                for s in [format!("{m:?}"), m.name().to_string()] {
                    ensure_eq!(call("FromStr", || s.parse::<Month>())?.ok(), Some(m), "{s:?}.parse::<Month>()");
                }
            }
        }
        Ok(())
    }
}

/// zone-aware values whose wall clock lies in the headroom beyond the nominal date range
pub struct Headroom;
impl SubCheck for Headroom {
    type Case = (bool, u32, u32, i32);
    fn name(&self) -> &'static str {
        "headroom_values"
    }
    fn rule(&self) -> &'static str {
        "case = (range end, seconds from that end, nanos, whole-minute offset pushing the wall clock one day beyond the nominal date range); Display and Debug have the reference shape (year -262144 / +262143) and parse back to the same instant and offset; every case non-trivial"
    }
    fn strategy(&self) -> Option<BoxedStrategy<Self::Case>> {
        Some((any::<bool>(), 0u32..3600, prop_oneof![1 => Just(0u32), 1 => 0u32..1_000_000_000], 1i32..=1439).prop_map(|(hi, s, n, m)| (hi, s % (m as u32 * 60), n, m * 60)).boxed())
    }
    fn check(&self, &(hi, s, n, off): &Self::Case, obs: &mut Obs) -> Result<(), String> {
        obs.nt("headroom");
        let u = if hi { Ndt { day: cal::max_day(), secs: 86_399 - s, frac: n } } else { Ndt { day: cal::min_day(), secs: s, frac: n } };
        let off = if hi { off } else { -off };
        let fo = FixedOffset::east_opt(off).ok_or("harness: offset")?;
        let dt = fo.from_utc_datetime(&conv::ndt(u));
        let w = shift(u, off as i64);
        let (ds, ts) = (rfmt::date(w.day), rfmt::time(w.secs, w.frac));
        let disp = call("Display", || dt.to_string())?;
        ensure_eq!(disp, format!("{ds} {ts} {}", rfmt::offset(off)), "Display of a headroom value");
        let dbg = call("Debug", || format!("{dt:?}"))?;
        ensure_eq!(dbg, format!("{ds}T{ts}{}", rfmt::offset(off)), "Debug of a headroom value");
        let parsed = [call("FromStr", || disp.parse::<DateTime<FixedOffset>>())?, call("FromStr", || dbg.parse::<DateTime<FixedOffset>>())?];
        if known::active("F18") {
            obs.excluded_known("F18");
            return Ok(());
        }
        for (txt, p) in [&disp, &dbg].iter().zip(parsed) {
            let p = p.map_err(|e| format!("{txt:?} (printed for {dt:?}) does not parse back: {e:?}"))?;
            ensure_eq!((p.naive_utc(), p.offset().local_minus_utc()), (dt.naive_utc(), off), "{txt:?} parsed back");
        }
        Ok(())
    }
}

pub fn subs() -> Vec<Box<dyn DynSub>> {
    vec![Box::new(Date), Box::new(Time), Box::new(DateTimeText), Box::new(Small), Box::new(Headroom)]
}

/// F14 probe: NaiveDateTime's Display form is rejected by its FromStr
fn probe_f14() -> bool {
    "2015-09-05 23:56:04".parse::<NaiveDateTime>().is_err()
}

pub fn run(ctx: &Ctx) {
    let there = probe_f14();
    known::activate("F14", there);
    if known::active("F14") {
        ctx.known_finding("F14", "NaiveDateTime Display form (\"date time\" with a space) is rejected by its FromStr (\"2015-09-05 23:56:04\".parse::<NaiveDateTime>() = Err); the pinned test suite asserts this rejection");
    }
    known::activate("F18", crate::props::c20::probe_f18());
    if known::active("F18") {
        ctx.known_finding("F18", "the Display/Debug text of a DateTime<FixedOffset> whose wall-clock date lies in the one-day headroom (\"+262143-01-01T00:59:59.999999999+01:00\" for MAX_UTC at +01:00) is rejected by its FromStr (OutOfRange)");
    }
    ctx.run_prop(&Headroom, ctx.n(100_000, 2_000_000));
    ctx.run_enum_opt(&Small, 3, |k| {
        let v: Vec<(u8, i32)> = match k {
            0 => (-1439..=1439).map(|m| (0u8, m)).collect(),
            1 => (0..7).map(|i| (1u8, i)).collect(),
            _ => (0..12).map(|i| (2u8, i)).collect(),
        };
        v.into_iter()
    }, true, true);
    let n = ctx.n(3_000_000, 100_000_000);
    ctx.run_prop(&Date, n);
    ctx.run_prop(&Time, n);
    ctx.run_prop(&DateTimeText, n);
    if ctx.tier == Tier::Thorough {
        // all 191 M dates through print/parse
        let (lo, hi) = (cal::min_day(), cal::max_day());
        let chunks = 4096usize;
        let per = (hi - lo + 1 + chunks as i64 - 1) / chunks as i64;
        ctx.run_enum_opt(&Date, chunks, |c| {
            let a = lo + c as i64 * per;
            a..=(a + per - 1).min(hi)
        }, true, true);
    }
}
