//! C08 Month stepping, field replacement and week helpers follow calendar rules.
use crate::engine::{Ctx, DynSub, Obs, SubCheck};
use crate::gen;
use crate::guard::{call, expect_panic};
use crate::props::c01::WD;
use crate::props::c07::{tod, T};
use crate::props::c19::MONTHS;
use crate::refmodel::cal;
use crate::{conv, ensure, ensure_eq};
use chrono::{Datelike, FixedOffset, Months, NaiveDate, TimeZone, Timelike, Utc};
use proptest::prelude::*;

fn in_range_year(y: i64) -> bool {
    (cal::MIN_YEAR..=cal::MAX_YEAR).contains(&y)
}
fn day_of(y: i64, m: i64, d: i64) -> Option<i64> {
    if in_range_year(y) && cal::valid_ymd(y, m, d) { Some(cal::days_from_civil(y, m as u32, d as u32)) } else { None }
}

// ---------------------------------------------------------------------------------------------
pub struct MonthStep;
impl SubCheck for MonthStep {
    type Case = (i64, u32, T);
    fn name(&self) -> &'static str {
        "month_step"
    }
    fn rule(&self) -> &'static str {
        "case = (date, u32 month count, time); checked_add/sub_months and +/- Months on NaiveDate and NaiveDateTime: year-month moves by exactly N, day clamped, None only when the target year is out of range; non-trivial = day clamped, or target year at/just beyond a range end, or count > i32::MAX, or count not a multiple of 12 crossing a year"
    }
    fn strategy(&self) -> Option<BoxedStrategy<Self::Case>> {
        let n = prop_oneof![
            3 => 0u32..40,
            2 => proptest::sample::select(vec![0u32, 1, 11, 12, 13, 23, 24, 1200, 4800, i32::MAX as u32 - 1, i32::MAX as u32, i32::MAX as u32 + 1, u32::MAX - 1, u32::MAX]),
            2 => 0u32..7_000_000,
            1 => any::<u32>(),
        ];
        let aimed = (gen::day(), any::<bool>(), -14i64..=14).prop_map(|(z, hi, e)| {
            let (y, m, _) = cal::civil_from_days(z);
            let months_to_end = if hi { (cal::MAX_YEAR - y) * 12 + (12 - m as i64) } else { (y - cal::MIN_YEAR) * 12 + (m as i64 - 1) };
            (z, (months_to_end + e).clamp(0, u32::MAX as i64) as u32)
        });
        Some((prop_oneof![3 => (gen::day(), n), 2 => aimed], tod()).prop_map(|((z, n), t)| (z, n, T { secs: t.secs, frac: t.frac % 1_000_000_000 })).boxed())
    }
    fn check(&self, &(z, n, t): &Self::Case, obs: &mut Obs) -> Result<(), String> {
        let (y, m, d) = cal::civil_from_days(z);
        let date = conv::date(z);
        let ndt = date.and_time(t.build()?);
        obs.nt_if(n > i32::MAX as u32, "count_beyond_i32");
        for (name, sign) in [("checked_add_months", 1i64), ("checked_sub_months", -1i64)] {
            let (ny, nm, nd) = cal::add_months(y, m, d, sign * n as i64);
            let exp = if in_range_year(ny) { Some(cal::days_from_civil(ny, nm, nd)) } else { None };
            obs.nt_if(nd != d, "day_clamped");
            obs.nt_if((ny - cal::MAX_YEAR).abs() <= 1 || (ny - cal::MIN_YEAR).abs() <= 1, "target_year_at_range_end");
            obs.nt_if(ny != y && n % 12 != 0, "year_rollover");
            let got = call(name, || if sign > 0 { date.checked_add_months(Months::new(n)) } else { date.checked_sub_months(Months::new(n)) })?;
            ensure_eq!(got.map(conv::unix_day_of), exp, "NaiveDate::{name}({y}-{m}-{d}, {n})");
            let got2 = call(name, || if sign > 0 { ndt.checked_add_months(Months::new(n)) } else { ndt.checked_sub_months(Months::new(n)) })?;
            ensure_eq!(got2.map(|x| (conv::unix_day_of(x.date()), T::of(&x.time()))), exp.map(|e| (e, t)), "NaiveDateTime::{name}({y}-{m}-{d}, {n})");
            match got {
                Some(r) => {
                    ensure_eq!(call("Months operator", || if sign > 0 { date + Months::new(n) } else { date - Months::new(n) })?, r, "operator form of {name}");
                    ensure_eq!(call("Months operator", || if sign > 0 { ndt + Months::new(n) } else { ndt - Months::new(n) })?.date(), r, "NaiveDateTime operator form of {name}");
                }
                None => {
                    expect_panic("Months operator on overflow", || if sign > 0 { date + Months::new(n) } else { date - Months::new(n) })?;
                }
            }
        }
        Ok(())
    }
}

// ---------------------------------------------------------------------------------------------
pub struct ReplaceDate;
impl SubCheck for ReplaceDate {
    type Case = (i64, u8, i64, T);
    fn name(&self) -> &'static str {
        "replace_date_field"
    }
    fn rule(&self) -> &'static str {
        "case = (date, field 0 year | 1 month | 2 month0 | 3 day | 4 day0 | 5 ordinal | 6 ordinal0, value over the full i32/u32 range, time); NaiveDate/NaiveDateTime::with_* = the date with that one field replaced, or None; non-trivial = the replacement does not exist (Feb 29 into a common year, day beyond the month, ordinal 366), value at limit/limit+1 or an integer extreme, or year at a range end"
    }
    fn strategy(&self) -> Option<BoxedStrategy<Self::Case>> {
        // dates next to the places where year types differ: end of February, year ends, in years next to
        // multiples of 400 / 100 / 4
        let special = (-655i64..=655, proptest::sample::select(vec![400i64, 100, 4, 1]), -1i64..=1, proptest::sample::select(vec![(1u32, 1u32), (2, 28), (2, 29), (3, 1), (12, 30), (12, 31), (1, 31), (6, 15)]))
            .prop_map(|(k, m, dy, (mo, da))| {
                let y = ((k * m).clamp(-262_000, 262_000) + dy).clamp(cal::MIN_YEAR, cal::MAX_YEAR);
                cal::days_from_civil(y, mo, da.min(cal::days_in_month(y, mo)))
            });
        Some(
            (prop_oneof![3 => gen::day(), 2 => special], 0u8..7, tod())
                .prop_flat_map(|(z, f, t)| {
                    let y0 = cal::civil_from_days(z).0;
                    let v = match f {
                        0 => prop_oneof![
                            2 => (cal::MIN_YEAR - 3..=cal::MAX_YEAR + 3),
                            2 => gen::i32_edges().prop_map(|v| v as i64),
                            2 => -100i64..2500,
                            // relative to the source year: the periods of the calendar and their neighbours
                            3 => (proptest::sample::select(vec![0i64, 1, 4, 28, 56, 84, 100, 200, 300, 400, 2800]), any::<bool>(), -1i64..=1).prop_map(move |(d, neg, e)| y0 + if neg { -d } else { d } + e),
                        ]
                        .boxed(),
                        1 | 2 => gen::u32_edges(vec![11, 12, 13]).prop_map(|v| v as i64).boxed(),
                        3 | 4 => gen::u32_edges(vec![27, 28, 29, 30, 31, 32]).prop_map(|v| v as i64).boxed(),
                        _ => gen::u32_edges(vec![364, 365, 366, 367]).prop_map(|v| v as i64).boxed(),
                    };
                    (Just(z), Just(f), v, Just(T { secs: t.secs, frac: t.frac % 1_000_000_000 }))
                })
                .boxed(),
        )
    }
    fn check(&self, &(z, f, v, t): &Self::Case, obs: &mut Obs) -> Result<(), String> {
        let (y, m, d) = cal::civil_from_days(z);
        let (m, d) = (m as i64, d as i64);
        let o = cal::ordinal(z) as i64;
        let date = conv::date(z);
        let ndt = date.and_time(t.build()?);
        let one = v + 1; // for the 0-based forms; may exceed u32
        let exp: Option<i64> = match f {
            0 => day_of(v, m, d),
            1 => day_of(y, v, d),
            2 => if one <= u32::MAX as i64 { day_of(y, one, d) } else { None },
            3 => day_of(y, m, v),
            4 => if one <= u32::MAX as i64 { day_of(y, m, one) } else { None },
            5 => cal::day_from_yo(y, v),
            _ => if one <= u32::MAX as i64 { cal::day_from_yo(y, one) } else { None },
        };
        obs.nt_if(exp.is_none(), "no_such_date");
        obs.nt_if(f == 0 && ((v - cal::MAX_YEAR).abs() <= 1 || (v - cal::MIN_YEAR).abs() <= 1), "year_at_range_end");
        obs.nt_if(v == u32::MAX as i64 || v == i32::MAX as i64 || v == i32::MIN as i64 || v == 0, "integer_extreme_or_zero");
        obs.label_if(exp.is_some() && exp != Some(z), "changed");
        let (gd, gn) = match f {
            0 => (call("with_year", || date.with_year(v as i32))?, call("with_year", || ndt.with_year(v as i32))?),
            1 => (call("with_month", || date.with_month(v as u32))?, call("with_month", || ndt.with_month(v as u32))?),
            2 => (call("with_month0", || date.with_month0(v as u32))?, call("with_month0", || ndt.with_month0(v as u32))?),
            3 => (call("with_day", || date.with_day(v as u32))?, call("with_day", || ndt.with_day(v as u32))?),
            4 => (call("with_day0", || date.with_day0(v as u32))?, call("with_day0", || ndt.with_day0(v as u32))?),
            5 => (call("with_ordinal", || date.with_ordinal(v as u32))?, call("with_ordinal", || ndt.with_ordinal(v as u32))?),
            _ => (call("with_ordinal0", || date.with_ordinal0(v as u32))?, call("with_ordinal0", || ndt.with_ordinal0(v as u32))?),
        };
        ensure_eq!(gd.map(conv::unix_day_of), exp, "NaiveDate field {f} := {v} on {y}-{m}-{d} (ordinal {o})");
        ensure_eq!(gn.map(|x| (conv::unix_day_of(x.date()), T::of(&x.time()))), exp.map(|e| (e, t)), "NaiveDateTime field {f} := {v} on {y}-{m}-{d}");
        if let Some(r) = gd {
            crate::props::c01::check_fields(&r, exp.unwrap())?;
        }
        // the deprecated zoned date replaces the same field of the same date
        #[allow(deprecated)]
        {
            use chrono::TimeZone;
            let zd = chrono::Utc.from_utc_date(&date);
            let gz = match f {
                0 => call("Date::with_year", || zd.with_year(v as i32))?,
                1 => call("Date::with_month", || zd.with_month(v as u32))?,
                2 => call("Date::with_month0", || zd.with_month0(v as u32))?,
                3 => call("Date::with_day", || zd.with_day(v as u32))?,
                4 => call("Date::with_day0", || zd.with_day0(v as u32))?,
                5 => call("Date::with_ordinal", || zd.with_ordinal(v as u32))?,
                _ => call("Date::with_ordinal0", || zd.with_ordinal0(v as u32))?,
            };
            ensure_eq!(gz.map(|x| conv::unix_day_of(x.naive_utc())), exp, "Date<Utc> field {f} := {v} on {y}-{m}-{d} (ordinal {o})");
        }
        Ok(())
    }
}

// ---------------------------------------------------------------------------------------------
pub struct ReplaceTime;
impl SubCheck for ReplaceTime {
    type Case = (i64, T, u8, u32);
    fn name(&self) -> &'static str {
        "replace_time_field"
    }
    fn rule(&self) -> &'static str {
        "case = (date, time, field 0 hour | 1 minute | 2 second | 3 nanosecond, value); NaiveDateTime::with_* changes exactly that field and keeps the date; non-trivial = value at limit/limit+1 or leap operand"
    }
    fn strategy(&self) -> Option<BoxedStrategy<Self::Case>> {
        Some((gen::day(), tod(), 0u8..4).prop_flat_map(|(z, t, f)| {
            let v = match f {
                0 => gen::u32_edges(vec![23, 24]),
                1 | 2 => gen::u32_edges(vec![59, 60]),
                _ => prop_oneof![2 => gen::u32_edges(vec![999_999_999, 1_000_000_000, 1_999_999_999, 2_000_000_000]), 1 => 0u32..2_000_000_000].boxed(),
            };
            (Just(z), Just(t), Just(f), v)
        }).boxed())
    }
    fn check(&self, &(z, t, f, v): &Self::Case, obs: &mut Obs) -> Result<(), String> {
        let ndt = conv::date(z).and_time(t.build()?);
        let (h, m, s) = (t.secs / 3600, t.secs / 60 % 60, t.secs % 60);
        let lim = [24u32, 60, 60, 2_000_000_000][f as usize];
        obs.nt_if(v.wrapping_add(1) == lim || v == lim, "value_at_limit");
        obs.nt_if(t.leap(), "leap_operand");
        let got = match f {
            0 => call("with_hour", || ndt.with_hour(v))?,
            1 => call("with_minute", || ndt.with_minute(v))?,
            2 => call("with_second", || ndt.with_second(v))?,
            _ => call("with_nanosecond", || ndt.with_nanosecond(v))?,
        };
        let exp = if v < lim {
            Some(match f {
                0 => T { secs: v * 3600 + m * 60 + s, frac: t.frac },
                1 => T { secs: h * 3600 + v * 60 + s, frac: t.frac },
                2 => T { secs: h * 3600 + m * 60 + v, frac: t.frac },
                _ => T { secs: t.secs, frac: v },
            })
        } else {
            None
        };
        ensure_eq!(got.map(|x| (conv::unix_day_of(x.date()), T::of(&x.time()))), exp.map(|e| (z, e)), "NaiveDateTime time field {f} := {v}");
        Ok(())
    }
}

// ---------------------------------------------------------------------------------------------
pub struct Week;
impl SubCheck for Week {
    type Case = (i64, u8);
    fn name(&self) -> &'static str {
        "week_bounds"
    }
    fn rule(&self) -> &'static str {
        "case = (date, first weekday of the week); first day = latest date <= d on that weekday (0-6 days back), last = first + 6, checked_* are None exactly when that date is unrepresentable (panicking forms panic exactly then); non-trivial = the week touches a range end, or the date is the first/last day of its week"
    }
    fn strategy(&self) -> Option<BoxedStrategy<Self::Case>> {
        Some((gen::day(), 0u8..7).boxed())
    }
    fn check(&self, &(z, s): &Self::Case, obs: &mut Obs) -> Result<(), String> {
        let d = conv::date(z);
        let w = d.week(WD[s as usize]);
        let back = (cal::weekday(z) as i64 - s as i64).rem_euclid(7);
        let (first, last) = (z - back, z - back + 6);
        obs.nt_if(!cal::in_range_day(first) || !cal::in_range_day(last) || first == cal::min_day() || last == cal::max_day(), "touches_range_end");
        obs.nt_if(back == 0 || back == 6, "date_at_week_edge");
        let gf = call("checked_first_day", || w.checked_first_day())?;
        let gl = call("checked_last_day", || w.checked_last_day())?;
        ensure_eq!(gf.map(conv::unix_day_of), if cal::in_range_day(first) { Some(first) } else { None }, "checked_first_day(day {z}, start {s})");
        ensure_eq!(gl.map(conv::unix_day_of), if cal::in_range_day(last) { Some(last) } else { None }, "checked_last_day(day {z}, start {s})");
        if let Some(f) = gf {
            ensure_eq!(f.weekday(), WD[s as usize], "first day's weekday");
            ensure_eq!(call("first_day", || w.first_day())?, f, "first_day");
        } else {
            expect_panic("first_day out of range", || w.first_day())?;
        }
        if let Some(l) = gl {
            ensure_eq!(l.weekday(), WD[s as usize].pred(), "last day's weekday");
            ensure_eq!(call("last_day", || w.last_day())?, l, "last_day");
        } else {
            expect_panic("last_day out of range", || w.last_day())?;
        }
        let gd = call("checked_days", || w.checked_days())?;
        match (gf, gl) {
            (Some(f), Some(l)) => {
                let r = gd.ok_or("checked_days = None although both ends exist")?;
                ensure_eq!((*r.start(), *r.end()), (f, l), "checked_days");
                ensure!(r.contains(&d), "week does not contain its date");
                ensure_eq!(call("days", || w.days())?, r, "days");
                // every date of the week names the same week value: equal, and hashing alike
                use std::hash::{Hash, Hasher};
                let h = |x: &chrono::NaiveWeek| { let mut s = std::collections::hash_map::DefaultHasher::new(); x.hash(&mut s); s.finish() };
                for other in [f, l, f + chrono::Days::new((z.rem_euclid(7) as u64 + s as u64) % 7)] {
                    let w2 = other.week(WD[s as usize]);
                    ensure!(w2 == w, "week of {other} (start {s}) differs from the week of {d}");
                    ensure_eq!(h(&w2), h(&w), "equal weeks hash differently: week of {other} vs week of {d} (start {s})");
                }
            }
            _ => {
                ensure!(gd.is_none(), "checked_days = Some although an end is unrepresentable");
                expect_panic("days out of range", || w.days())?;
            }
        }
        Ok(())
    }
}

// ---------------------------------------------------------------------------------------------
pub struct Nth;
impl SubCheck for Nth {
    type Case = (i32, u32, u8, u8);
    fn name(&self) -> &'static str {
        "nth_weekday_of_month"
    }
    fn rule(&self) -> &'static str {
        "case = (year, month, weekday, n); from_weekday_of_month_opt = the n-th such weekday of that month found by scanning, None if there is none; non-trivial = n in {0, 4, 5, 6, 255} or month/year invalid or at a range end"
    }
    fn strategy(&self) -> Option<BoxedStrategy<Self::Case>> {
        Some((prop_oneof![3 => cal::MIN_YEAR as i32 - 2..=cal::MAX_YEAR as i32 + 2, 1 => gen::i32_edges()], gen::u32_edges(vec![12, 13]), 0u8..7, any::<u8>()).boxed())
    }
    fn check(&self, &(y, m, wd, n): &Self::Case, obs: &mut Obs) -> Result<(), String> {
        obs.nt_if(matches!(n, 0 | 4 | 5 | 6 | 255), "n_edge");
        obs.nt_if(!(1..=12).contains(&m) || !in_range_year(y as i64) || y as i64 == cal::MIN_YEAR || y as i64 == cal::MAX_YEAR, "year_or_month_edge");
        let exp = if in_range_year(y as i64) && (1..=12).contains(&m) && n >= 1 {
            let len = cal::days_in_month(y as i64, m);
            let mut seen = 0;
            let mut found = None;
            for day in 1..=len {
                let z = cal::days_from_civil(y as i64, m, day);
                if cal::weekday(z) == wd as u32 {
                    seen += 1;
                    if seen == n as u32 {
                        found = Some(z);
                        break;
                    }
                }
            }
            found
        } else {
            None
        };
        obs.label_if(exp.is_some(), "exists");
        let got = call("from_weekday_of_month_opt", || NaiveDate::from_weekday_of_month_opt(y, m, WD[wd as usize], n))?;
        ensure_eq!(got.map(conv::unix_day_of), exp, "from_weekday_of_month_opt({y}, {m}, {wd}, {n})");
        // the deprecated panicking form: same date, panic exactly when there is none
        #[allow(deprecated)]
        let dep = crate::guard::guard(|| NaiveDate::from_weekday_of_month(y, m, WD[wd as usize], n)).ok();
        ensure_eq!(dep.map(conv::unix_day_of), exp, "deprecated from_weekday_of_month({y}, {m}, {wd}, {n})");
        Ok(())
    }
}

// ---------------------------------------------------------------------------------------------
pub struct Years;
impl SubCheck for Years {
    type Case = (i64, T, i64, T, i32);
    fn name(&self) -> &'static str {
        "years_since_and_misc"
    }
    fn rule(&self) -> &'static str {
        "case = (date a, time a, date b, time b, offset); years_since on NaiveDate and DateTime = whole years by (month, day[, time]) comparison, None when negative; quarter, year_ce, num_days_in_month, Month::num_days against the calendar; non-trivial = same month-day (anniversary), Feb 29 involved, a is before b, or year <= 0"
    }
    fn strategy(&self) -> Option<BoxedStrategy<Self::Case>> {
        let nl = |t: T| T { secs: t.secs, frac: t.frac % 1_000_000_000 };
        let pair = prop_oneof![
            2 => (gen::day(), gen::day()),
            // anniversaries: same month/day +/- 1 day in another year
            3 => (gen::day(), -300i64..300, -1i64..=1).prop_map(|(a, dy, e)| {
                let (y, m, d) = cal::civil_from_days(a);
                let ny = (y + dy).clamp(cal::MIN_YEAR, cal::MAX_YEAR);
                let nd = d.min(cal::days_in_month(ny, m));
                (a, (cal::days_from_civil(ny, m, nd) + e).clamp(cal::min_day(), cal::max_day()))
            }),
        ];
        Some((pair, tod(), tod(), gen::offset_secs()).prop_map(move |((a, b), ta, tb, off)| (a, nl(ta), b, nl(tb), off)).boxed())
    }
    fn check(&self, &(a, ta, b, tb, off): &Self::Case, obs: &mut Obs) -> Result<(), String> {
        let (ya, ma, da) = cal::civil_from_days(a);
        let (yb, mb, db) = cal::civil_from_days(b);
        obs.nt_if((ma, da) == (mb, db), "anniversary");
        obs.nt_if((ma, da) == (2, 29) || (mb, db) == (2, 29), "feb29");
        obs.nt_if(a < b, "a_before_b");
        obs.nt_if(ya <= 0, "year_not_positive");
        let (xa, xb) = (conv::date(a), conv::date(b));
        let mut yrs = ya - yb;
        if (ma, da) < (mb, db) {
            yrs -= 1;
        }
        ensure_eq!(call("years_since", || xa.years_since(xb))?, if yrs >= 0 { Some(yrs as u32) } else { None }, "NaiveDate::years_since({ya}-{ma}-{da}, {yb}-{mb}-{db})");
        // zone-aware: wall-clock (month, day, time) comparison, both values in the same zone
        let (na, nb) = (xa.and_time(ta.build()?), xb.and_time(tb.build()?));
        let mut yrs2 = ya - yb;
        if (ma, da, ta.secs, ta.frac) < (mb, db, tb.secs, tb.frac) {
            yrs2 -= 1;
        }
        let exp2 = if yrs2 >= 0 { Some(yrs2 as u32) } else { None };
        ensure_eq!(call("DateTime<Utc>::years_since", || Utc.from_utc_datetime(&na).years_since(Utc.from_utc_datetime(&nb)))?, exp2, "DateTime<Utc>::years_since");
        let fo = FixedOffset::east_opt(off).ok_or("harness: offset")?;
        if let (Some(fa), Some(fb)) = (fo.from_local_datetime(&na).single(), fo.from_local_datetime(&nb).single()) {
            ensure_eq!(call("DateTime<FixedOffset>::years_since", || fa.years_since(fb))?, exp2, "DateTime<FixedOffset>::years_since (wall clock, offset {off})");
        }
        // misc calendar helpers
        ensure_eq!(xa.quarter(), (ma - 1) / 3 + 1, "quarter of month {ma}");
        ensure_eq!(xa.year_ce(), if ya >= 1 { (true, ya as u32) } else { (false, (1 - ya) as u32) }, "year_ce of {ya}");
        ensure_eq!(xa.num_days_in_month() as u32, cal::days_in_month(ya, ma), "num_days_in_month of {ya}-{ma}");
        ensure_eq!(na.quarter(), (ma - 1) / 3 + 1, "NaiveDateTime::quarter");
        ensure_eq!(na.num_days_in_month() as u32, cal::days_in_month(ya, ma), "NaiveDateTime::num_days_in_month");
        ensure_eq!(call("Month::num_days", || MONTHS[(ma - 1) as usize].num_days(ya as i32))?.map(|v| v as u32), Some(cal::days_in_month(ya, ma)), "Month::num_days({ya})");
        // arbitrary (possibly unsupported) year taken from the second date's raw bits
        let wild = (b as i32).wrapping_mul(7919);
        let got = call("Month::num_days", || MONTHS[(mb - 1) as usize].num_days(wild))?;
        if in_range_year(wild as i64) {
            ensure_eq!(got.map(|v| v as u32), Some(cal::days_in_month(wild as i64, mb)), "Month::num_days({wild})");
        } else {
            // documented as None for unsupported years; the statement only asks for agreement with
            // the calendar, so None or the calendar-correct length are both accepted (DESIGN C08)
            obs.label("month_num_days_unsupported_year");
            ensure!(got.is_none() || got.map(|v| v as u32) == Some(cal::days_in_month(wild as i64, mb)), "Month::num_days({wild}) = {got:?} contradicts the calendar");
        }
        let _ = na.hour();
        Ok(())
    }
}

pub fn subs() -> Vec<Box<dyn DynSub>> {
    vec![Box::new(MonthStep), Box::new(ReplaceDate), Box::new(ReplaceTime), Box::new(Week), Box::new(Nth), Box::new(Years)]
}

pub fn run(ctx: &Ctx) {
    let n = ctx.n(4_000_000, 180_000_000);
    ctx.run_prop(&MonthStep, n);
    ctx.run_prop(&ReplaceDate, n);
    ctx.run_prop(&ReplaceTime, n / 2);
    // weeks: every date within 10 days of MIN/MAX x 7 start days, exhaustively
    ctx.run_enum_opt(&Week, 2, |c| {
        let base = if c == 0 { cal::min_day() } else { cal::max_day() - 10 };
        (base..=base + 10).flat_map(|z| (0u8..7).map(move |s| (z, s)))
    }, false, true);
    ctx.run_prop(&Week, n);
    // n-th weekday: one full 400-year cycle plus both range ends, all arguments
    let years: Vec<i32> = (1800..2200).chain([cal::MIN_YEAR as i32 - 1, cal::MIN_YEAR as i32, cal::MIN_YEAR as i32 + 1, cal::MAX_YEAR as i32 - 1, cal::MAX_YEAR as i32, cal::MAX_YEAR as i32 + 1]).collect();
    let years = &years;
    ctx.run_enum_opt(&Nth, years.len(), |k| {
        let y = years[k];
        (0u32..=13).flat_map(move |m| (0u8..7).flat_map(move |wd| [0u8, 1, 2, 3, 4, 5, 6, 255].into_iter().map(move |n| (y, m, wd, n))))
    }, false, true);
    ctx.run_prop(&Nth, n / 2);
    ctx.run_prop(&Years, n);
}
