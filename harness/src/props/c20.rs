//! C20 Serialized forms deserialize to the same value (serde feature; JSON + bincode).
use crate::engine::{Ctx, DynSub, Obs, SubCheck};
use crate::gen;
use crate::guard::call;
use crate::known;
use crate::props::c01::WD;
use crate::props::c04::{representable, shift};
use crate::props::c06::{dur, D};
use crate::props::c07::T;
use crate::props::c19::MONTHS;
use crate::refmodel::cal;
use crate::refmodel::inst::{self, Ndt, NS};
use crate::{conv, ensure, ensure_eq};
use chrono::{DateTime, FixedOffset, Month, NaiveDate, NaiveDateTime, NaiveTime, TimeDelta, TimeZone, Utc, Weekday};
use proptest::prelude::*;
use serde::de::value::{Error as VErr, I64Deserializer, U64Deserializer};
use serde::de::DeserializeOwned;
use serde::{Deserialize, Serialize};
use std::fmt::Debug;

/// value -> JSON -> value and value -> bincode -> value, both guarded
fn round_trip<X: Serialize + DeserializeOwned + PartialEq + Debug>(what: &str, v: &X) -> Result<(), String> {
    let js = call("serde_json::to_string", || serde_json::to_string(v))?.map_err(|e| format!("{what}: JSON serialization of {v:?} failed: {e}"))?;
    let back: X = call("serde_json::from_str", || serde_json::from_str(&js))?.map_err(|e| format!("{what}: {js} does not deserialize: {e}"))?;
    ensure!(&back == v, "{what}: JSON {js} came back as {back:?}, expected {v:?}");
    let bin = call("bincode::serialize", || bincode::serialize(v))?.map_err(|e| format!("{what}: bincode serialization of {v:?} failed: {e}"))?;
    let back: X = call("bincode::deserialize", || bincode::deserialize(&bin))?.map_err(|e| format!("{what}: bincode form of {v:?} does not deserialize: {e}"))?;
    ensure!(&back == v, "{what}: bincode came back as {back:?}, expected {v:?}");
    Ok(())
}

// ---------------------------------------------------------------------------------------------
pub struct Values;
impl SubCheck for Values {
    type Case = (i64, T, i32, D);
    fn name(&self) -> &'static str {
        "values"
    }
    fn rule(&self) -> &'static str {
        "case = (date, time, offset at one-second resolution, duration): NaiveDate, NaiveTime, NaiveDateTime, DateTime<Utc>, DateTime<FixedOffset>, TimeDelta, Weekday, Month through serde_json and bincode come back equal (zone-aware: same instant; same offset when it is a whole minute); non-trivial = year outside 0..=9999, fraction, leap second, non-UTC offset, negative duration"
    }
    fn strategy(&self) -> Option<BoxedStrategy<Self::Case>> {
        Some((crate::props::c09::text_day(), crate::props::c09::text_time(), prop_oneof![3 => gen::offset_minutes(), 1 => gen::offset_secs()], dur()).boxed())
    }
    fn check(&self, &(z, t, off, d): &Self::Case, obs: &mut Obs) -> Result<(), String> {
        let (y, m, _) = cal::civil_from_days(z);
        obs.nt_if(!(0..=9999).contains(&y), "year_outside_0_9999");
        obs.nt_if(t.frac % 1_000_000_000 != 0, "fraction");
        obs.nt_if(t.leap(), "leap_second");
        obs.nt_if(off != 0, "non_utc_offset");
        obs.nt_if(d.ns() < 0, "negative_duration");
        let date = conv::date(z);
        let time = t.build()?;
        let ndt = date.and_time(time);
        round_trip::<NaiveDate>("NaiveDate", &date)?;
        round_trip::<NaiveTime>("NaiveTime", &time)?;
        round_trip::<NaiveDateTime>("NaiveDateTime", &ndt)?;
        round_trip::<DateTime<Utc>>("DateTime<Utc>", &ndt.and_utc())?;
        round_trip::<TimeDelta>("TimeDelta", &d.td()?)?;
        round_trip::<Weekday>("Weekday", &WD[cal::weekday(z) as usize])?;
        round_trip::<Month>("Month", &MONTHS[(m - 1) as usize])?;
        round_trip::<Option<NaiveDate>>("Option<NaiveDate>", &Some(date))?;
        round_trip::<(NaiveDate, NaiveTime, TimeDelta)>("tuple", &(date, time, d.td()?))?;
        // zone-aware with an offset: (z, t) is the wall clock
        let fo = FixedOffset::east_opt(off).ok_or("harness: offset")?;
        let wall = Ndt { day: z, secs: t.secs, frac: t.frac };
        if representable(shift(wall, -(off as i64))) {
            let f = fo.from_local_datetime(&ndt).single().ok_or("harness: from_local_datetime")?;
            if off % 60 != 0 && known::active("F15") {
                obs.excluded_known("F15");
            } else {
                obs.label_if(off % 60 != 0, "offset_with_seconds");
                // same instant always; same offset when it is a whole number of minutes
                let js = call("serde_json::to_string", || serde_json::to_string(&f))?.map_err(|e| format!("DateTime<FixedOffset> JSON serialization failed: {e}"))?;
                let b: DateTime<FixedOffset> = call("serde_json::from_str", || serde_json::from_str(&js))?.map_err(|e| format!("{js} does not deserialize: {e}"))?;
                ensure_eq!(b.naive_utc(), f.naive_utc(), "DateTime<FixedOffset> {f:?} -> {js} -> instant");
                if off % 60 == 0 {
                    ensure_eq!(b.offset().local_minus_utc(), off, "DateTime<FixedOffset> -> {js} -> offset");
                }
                let u: DateTime<Utc> = call("serde_json::from_str", || serde_json::from_str(&js))?.map_err(|e| format!("{js} does not deserialize as DateTime<Utc>: {e}"))?;
                ensure_eq!(u.naive_utc(), f.naive_utc(), "{js} read as DateTime<Utc>");
                let l: DateTime<chrono::Local> = call("serde_json::from_str", || serde_json::from_str(&js))?.map_err(|e| format!("{js} does not deserialize as DateTime<Local>: {e}"))?;
                ensure_eq!(l.naive_utc(), f.naive_utc(), "{js} read as DateTime<Local>");
                let bin = call("bincode::serialize", || bincode::serialize(&f))?.map_err(|e| format!("bincode serialization failed: {e}"))?;
                let b2: DateTime<FixedOffset> = call("bincode::deserialize", || bincode::deserialize(&bin))?.map_err(|e| format!("bincode form of {f:?} does not deserialize: {e}"))?;
                ensure_eq!(b2.naive_utc(), f.naive_utc(), "DateTime<FixedOffset> bincode instant");
                let l2: DateTime<chrono::Local> = call("bincode::deserialize", || bincode::deserialize(&bin))?.map_err(|e| format!("bincode form of {f:?} does not deserialize as DateTime<Local>: {e}"))?;
                ensure_eq!(l2.naive_utc(), f.naive_utc(), "DateTime<FixedOffset> bincode read as DateTime<Local>");
                // a DateTime<Local> holding the same instant writes a text that reads back to it
                let lv = f.with_timezone(&chrono::Local);
                let ud = crate::conv::unix_day_of(f.naive_utc().date());
                if lv.offset().local_minus_utc() % 60 == 0 && crate::refmodel::cal::in_range_day(ud - 1) && crate::refmodel::cal::in_range_day(ud + 1) {
                    let ljs = call("serde_json::to_string", || serde_json::to_string(&lv))?.map_err(|e| format!("DateTime<Local> JSON serialization failed: {e}"))?;
                    let lb: DateTime<chrono::Local> = call("serde_json::from_str", || serde_json::from_str(&ljs))?.map_err(|e| format!("{ljs} does not deserialize as DateTime<Local>: {e}"))?;
                    ensure_eq!(lb.naive_utc(), f.naive_utc(), "DateTime<Local> {lv:?} -> {ljs} -> instant");
                }
                if off % 60 == 0 {
                    ensure_eq!(b2.offset().local_minus_utc(), off, "DateTime<FixedOffset> bincode offset");
                }
            }
        }
        Ok(())
    }
}

// ---------------------------------------------------------------------------------------------
macro_rules! wrappers {
    ($( $name:ident, $optname:ident, $ty:ty, $path:literal, $optpath:literal );* $(;)?) => {
        $(
            #[derive(Serialize, Deserialize, PartialEq, Debug)]
            struct $name { #[serde(with = $path)] d: $ty }
            #[derive(Serialize, Deserialize, PartialEq, Debug)]
            struct $optname { #[serde(with = $optpath)] d: Option<$ty> }
        )*
        /// every option module inside a flattened struct: the self-describing format is then read through
        /// serde's buffered content, where `null` arrives as a unit
        fn flattened_none() -> Result<(), String> {
            $(
                {
                    #[derive(Serialize, Deserialize, PartialEq, Debug)]
                    struct Outer { id: u8, #[serde(flatten)] inner: $optname }
                    for v in [Outer { id: 7, inner: $optname { d: None } }] {
                        let js = serde_json::to_string(&v).map_err(|e| format!("{}: flattened None does not serialize: {e}", $optpath))?;
                        let back: Outer = serde_json::from_str(&js).map_err(|e| format!("{}: {js} (written by the module inside a flattened struct) does not deserialize: {e}", $optpath))?;
                        if back != v { return Err(format!("{}: {js} came back as {back:?}", $optpath)); }
                    }
                }
            )*
            Ok(())
        }
    };
}
wrappers! {
    US, USO, DateTime<Utc>, "chrono::serde::ts_seconds", "chrono::serde::ts_seconds_option";
    UMs, UMsO, DateTime<Utc>, "chrono::serde::ts_milliseconds", "chrono::serde::ts_milliseconds_option";
    UUs, UUsO, DateTime<Utc>, "chrono::serde::ts_microseconds", "chrono::serde::ts_microseconds_option";
    UNs, UNsO, DateTime<Utc>, "chrono::serde::ts_nanoseconds", "chrono::serde::ts_nanoseconds_option";
    NS_, NSO, NaiveDateTime, "chrono::naive::serde::ts_seconds", "chrono::naive::serde::ts_seconds_option";
    NMs, NMsO, NaiveDateTime, "chrono::naive::serde::ts_milliseconds", "chrono::naive::serde::ts_milliseconds_option";
    NUs, NUsO, NaiveDateTime, "chrono::naive::serde::ts_microseconds", "chrono::naive::serde::ts_microseconds_option";
    NNs, NNsO, NaiveDateTime, "chrono::naive::serde::ts_nanoseconds", "chrono::naive::serde::ts_nanoseconds_option";
}
const UNIT: [i128; 4] = [NS, 1_000_000, 1000, 1];
const UNIT_NAME: [&str; 4] = ["seconds", "milliseconds", "microseconds", "nanoseconds"];

/// what deserializing the integer `v` with module `unit` must give: Some(instant) or None (error)
fn expect_int(unit: usize, v: i128) -> Option<i128> {
    let t = v.checked_mul(UNIT[unit])?;
    if inst::in_range(t) { Some(t) } else { None }
}

pub struct TsInt;
#[derive(Clone, Debug, Serialize, Deserialize)]
pub struct IntCase {
    pub unit: u8,
    pub signed: bool,
    pub i: i64,
    pub u: u64,
}
impl SubCheck for TsInt {
    type Case = IntCase;
    fn name(&self) -> &'static str {
        "ts_integers"
    }
    fn rule(&self) -> &'static str {
        "case = (unit s|ms|us|ns, one i64 or u64 integer) fed to all four module variants of that unit (UTC/naive x plain/option) through serde's primitive deserializers and through JSON numbers; accepted exactly when the instant is representable, then equal to it, else an error and never a panic; non-trivial = negative, at a module's representable end, u64 beyond i64::MAX, or out of range"
    }
    fn strategy(&self) -> Option<BoxedStrategy<IntCase>> {
        Some(
            (0u8..4)
                .prop_flat_map(|unit| {
                    let lo = inst::min_inst().div_euclid(UNIT[unit as usize]).clamp(i64::MIN as i128, i64::MAX as i128) as i64;
                    let hi = inst::max_inst().div_euclid(UNIT[unit as usize]).clamp(i64::MIN as i128, i64::MAX as i128) as i64;
                    let signed = prop_oneof![4 => gen::i64_edges(vec![lo, hi, 0, -1]), 2 => lo..=hi, 1 => -100_000_000_000i64..100_000_000_000].prop_map(move |i| IntCase { unit, signed: true, i, u: 0 });
                    let unsigned = prop_oneof![2 => any::<u64>(), 2 => (0u64..1000).prop_map(|d| i64::MAX as u64 - 500 + d), 2 => (0u64..6).prop_map(move |d| (hi.max(3) as u64).saturating_add(d) - 3), 1 => (0u64..20).prop_map(|d| u64::MAX - d), 1 => 0u64..4_000_000_000].prop_map(move |u| IntCase { unit, signed: false, i: 0, u });
                    prop_oneof![3 => signed, 2 => unsigned]
                })
                .boxed(),
        )
    }
    fn check(&self, c: &IntCase, obs: &mut Obs) -> Result<(), String> {
        let unit = c.unit as usize;
        let v: i128 = if c.signed { c.i as i128 } else { c.u as i128 };
        let exp = expect_int(unit, v);
        obs.nt_if(v < 0, "negative");
        obs.nt_if(v > i64::MAX as i128, "u64_beyond_i64");
        obs.nt_if(exp.is_none(), "out_of_range");
        let lo = inst::min_inst().div_euclid(UNIT[unit]);
        let hi = inst::max_inst().div_euclid(UNIT[unit]);
        obs.nt_if((v - lo).abs() <= 3 || (v - hi).abs() <= 3, "at_module_end");
        let name = UNIT_NAME[unit];
        // primitive deserializers straight into each module's `deserialize`
        macro_rules! feed {
            ($m:path, $naive:expr) => {{
                let r = if c.signed {
                    call("ts deserialize (i64)", || { use $m as md; md::deserialize(I64Deserializer::<VErr>::new(c.i)).map(|x| to_inst(&x)) })?
                } else {
                    call("ts deserialize (u64)", || { use $m as md; md::deserialize(U64Deserializer::<VErr>::new(c.u)).map(|x| to_inst(&x)) })?
                };
                match (r, exp) {
                    (Ok(g), Some(e)) => ensure_eq!(g, e, "ts_{name} ({}) of {v}", $naive),
                    (Err(_), None) => {}
                    (Ok(g), None) => return Err(format!("ts_{name} ({}) accepted the unrepresentable integer {v} as instant {g}", $naive)),
                    (Err(e), Some(x)) => return Err(format!("ts_{name} ({}) refused {v} (instant {x} is representable): {e}", $naive)),
                }
            }};
        }
        match unit {
            0 => { feed!(chrono::serde::ts_seconds, "utc"); feed!(chrono::naive::serde::ts_seconds, "naive"); }
            1 => { feed!(chrono::serde::ts_milliseconds, "utc"); feed!(chrono::naive::serde::ts_milliseconds, "naive"); }
            2 => { feed!(chrono::serde::ts_microseconds, "utc"); feed!(chrono::naive::serde::ts_microseconds, "naive"); }
            _ => { feed!(chrono::serde::ts_nanoseconds, "utc"); feed!(chrono::naive::serde::ts_nanoseconds, "naive"); }
        }
        // JSON numbers through the derive-generated wrappers (plain and option)
        let js = format!("{{\"d\":{v}}}");
        macro_rules! json {
            ($w:ty, $sel:expr, $label:expr) => {{
                let r = call("serde_json::from_str (ts wrapper)", || serde_json::from_str::<$w>(&js))?;
                match (r.map(|w| $sel(w)), exp) {
                    (Ok(Some(g)), Some(e)) => ensure_eq!(g, e, "{} from JSON {js}", $label),
                    (Err(_), None) => {}
                    (Ok(g), e) => return Err(format!("{} from JSON {js}: got {g:?}, expected {e:?}", $label)),
                    (Err(er), Some(e)) => return Err(format!("{} refused JSON {js} (instant {e} is representable): {er}", $label)),
                }
            }};
        }
        match unit {
            0 => { json!(US, |w: US| Some(to_inst(&w.d)), "ts_seconds"); json!(USO, |w: USO| w.d.map(|x| to_inst(&x)), "ts_seconds_option"); json!(NS_, |w: NS_| Some(to_inst(&w.d)), "naive ts_seconds"); json!(NSO, |w: NSO| w.d.map(|x| to_inst(&x)), "naive ts_seconds_option"); }
            1 => { json!(UMs, |w: UMs| Some(to_inst(&w.d)), "ts_milliseconds"); json!(UMsO, |w: UMsO| w.d.map(|x| to_inst(&x)), "ts_milliseconds_option"); json!(NMs, |w: NMs| Some(to_inst(&w.d)), "naive ts_milliseconds"); json!(NMsO, |w: NMsO| w.d.map(|x| to_inst(&x)), "naive ts_milliseconds_option"); }
            2 => { json!(UUs, |w: UUs| Some(to_inst(&w.d)), "ts_microseconds"); json!(UUsO, |w: UUsO| w.d.map(|x| to_inst(&x)), "ts_microseconds_option"); json!(NUs, |w: NUs| Some(to_inst(&w.d)), "naive ts_microseconds"); json!(NUsO, |w: NUsO| w.d.map(|x| to_inst(&x)), "naive ts_microseconds_option"); }
            _ => { json!(UNs, |w: UNs| Some(to_inst(&w.d)), "ts_nanoseconds"); json!(UNsO, |w: UNsO| w.d.map(|x| to_inst(&x)), "ts_nanoseconds_option"); json!(NNs, |w: NNs| Some(to_inst(&w.d)), "naive ts_nanoseconds"); json!(NNsO, |w: NNsO| w.d.map(|x| to_inst(&x)), "naive ts_nanoseconds_option"); }
        }
        Ok(())
    }
}

trait ToInst {
    fn inst(&self) -> i128;
}
impl ToInst for DateTime<Utc> {
    fn inst(&self) -> i128 { inst::join(conv::model_of(&self.naive_utc())) }
}
impl ToInst for NaiveDateTime {
    fn inst(&self) -> i128 { inst::join(conv::model_of(self)) }
}
fn to_inst<X: ToInst>(x: &X) -> i128 {
    x.inst()
}

// ---------------------------------------------------------------------------------------------
pub struct TsValue;
impl SubCheck for TsValue {
    type Case = Ndt;
    fn name(&self) -> &'static str {
        "ts_values"
    }
    fn rule(&self) -> &'static str {
        "case = a non-leap UTC date-time; each of the sixteen ts_* modules writes the exact integer timestamp in its unit (floor) and reads back the instant truncated to its precision, in JSON and bincode; Option variants map None <-> null/unit; nanosecond modules report an error outside the 64-bit window; non-trivial = negative timestamp with sub-unit remainder, value at a range end or at the nanosecond-window end"
    }
    fn strategy(&self) -> Option<BoxedStrategy<Ndt>> {
        let w = |x: i128| inst::split(x.clamp(inst::min_inst(), inst::max_inst()));
        Some(
            prop_oneof![
                3 => gen::ndt(),
                2 => (proptest::sample::select(vec![i64::MAX as i128, i64::MIN as i128, 0i128]), -3_000_000_000i128..3_000_000_000).prop_map(move |(a, d)| w(a + d)),
                1 => (0i128..3_000_000_000, any::<bool>()).prop_map(move |(d, hi)| if hi { w(inst::max_inst() - d) } else { w(inst::min_inst() + d) }),
            ]
            .boxed(),
        )
    }
    fn check(&self, m: &Ndt, obs: &mut Obs) -> Result<(), String> {
        let t = inst::join(*m);
        obs.nt_if(t < 0 && t.rem_euclid(NS) != 0, "negative_with_subunit");
        obs.nt_if(inst::max_inst() - t < 3 * NS || t - inst::min_inst() < 3 * NS, "range_end");
        obs.nt_if((t - i64::MAX as i128).abs() < 3 * NS || (t - i64::MIN as i128).abs() < 3 * NS, "ns_window_end");
        let n = conv::ndt(*m);
        let u = n.and_utc();
        macro_rules! one {
            ($w:ident, $wo:ident, $val:expr, $unit:expr, $label:expr) => {{
                let unit: i128 = UNIT[$unit];
                let exp_int = t.div_euclid(unit);
                let fits = i64::try_from(exp_int).is_ok();
                let js = call("serde_json::to_string (ts wrapper)", || serde_json::to_string(&$w { d: $val }))?;
                match js {
                    Ok(s) => {
                        ensure!(fits, "{} wrote {s} although the count does not fit in 64 bits", $label);
                        ensure_eq!(s, format!("{{\"d\":{exp_int}}}"), "{} JSON of instant {t}", $label);
                        let back: $w = call("serde_json::from_str", || serde_json::from_str(&s))?.map_err(|e| format!("{}: {s} does not deserialize: {e}", $label))?;
                        ensure_eq!(to_inst(&back.d), exp_int * unit, "{} read-back of {s}", $label);
                        let bin = call("bincode::serialize", || bincode::serialize(&$w { d: $val }))?.map_err(|e| format!("{} bincode: {e}", $label))?;
                        ensure_eq!(bin.clone(), (exp_int as i64).to_le_bytes().to_vec(), "{} bincode bytes", $label);
                        let b2: $w = call("bincode::deserialize", || bincode::deserialize(&bin))?.map_err(|e| format!("{} bincode read: {e}", $label))?;
                        ensure_eq!(to_inst(&b2.d), exp_int * unit, "{} bincode read-back", $label);
                        // option variants
                        let so = call("to_string", || serde_json::to_string(&$wo { d: Some($val) }))?.map_err(|e| format!("{}_option: {e}", $label))?;
                        ensure_eq!(so, s, "{}_option Some(..) JSON", $label);
                        let bo: $wo = call("from_str", || serde_json::from_str(&so))?.map_err(|e| format!("{}_option read: {e}", $label))?;
                        ensure_eq!(bo.d.map(|x| to_inst(&x)), Some(exp_int * unit), "{}_option read-back", $label);
                        let bino = call("bincode::serialize", || bincode::serialize(&$wo { d: Some($val) }))?.map_err(|e| format!("{}_option bincode: {e}", $label))?;
                        let bo2: $wo = call("bincode::deserialize", || bincode::deserialize(&bino))?.map_err(|e| format!("{}_option bincode read: {e}", $label))?;
                        ensure_eq!(bo2.d.map(|x| to_inst(&x)), Some(exp_int * unit), "{}_option bincode read-back", $label);
                    }
                    Err(e) => {
                        ensure!(!fits, "{} failed to serialize instant {t} although the count {exp_int} fits in 64 bits: {e}", $label);
                        obs.label("ns_serialize_refused");
                    }
                }
                let none = call("to_string", || serde_json::to_string(&$wo { d: None }))?.map_err(|e| format!("{}_option None: {e}", $label))?;
                ensure_eq!(none, "{\"d\":null}", "{}_option None JSON", $label);
                let bn: $wo = call("from_str", || serde_json::from_str(&none))?.map_err(|e| format!("{}_option null read: {e}", $label))?;
                ensure!(bn.d.is_none(), "{}_option null -> Some", $label);
                let binn = call("bincode::serialize", || bincode::serialize(&$wo { d: None }))?.map_err(|e| format!("{}_option None bincode: {e}", $label))?;
                let bn2: $wo = call("bincode::deserialize", || bincode::deserialize(&binn))?.map_err(|e| format!("{}_option None bincode read: {e}", $label))?;
                ensure!(bn2.d.is_none(), "{}_option bincode None -> Some", $label);
            }};
        }
        one!(US, USO, u, 0, "ts_seconds");
        one!(UMs, UMsO, u, 1, "ts_milliseconds");
        one!(UUs, UUsO, u, 2, "ts_microseconds");
        one!(UNs, UNsO, u, 3, "ts_nanoseconds");
        one!(NS_, NSO, n, 0, "naive ts_seconds");
        one!(NMs, NMsO, n, 1, "naive ts_milliseconds");
        one!(NUs, NUsO, n, 2, "naive ts_microseconds");
        one!(NNs, NNsO, n, 3, "naive ts_nanoseconds");
        call("flattened option modules", flattened_none)??;
        // leap-second reading of this second (when it is a :59): the option module writes what the plain
        // module writes, and the seconds modules write the timestamp of second 59 (what timestamp() reports)
        if m.secs % 60 == 59 && m.frac < 1_000_000_000 {
            obs.nt("leap_reading_written");
            let ln = conv::ndt(Ndt { frac: m.frac + 1_000_000_000, ..*m });
            let lu = ln.and_utc();
            macro_rules! pair {
                ($w:ident, $wo:ident, $val:expr, $label:expr) => {{
                    let a = call("to_string", || serde_json::to_string(&$w { d: $val }))?.map_err(|e| e.to_string());
                    let b = call("to_string", || serde_json::to_string(&$wo { d: Some($val) }))?.map_err(|e| e.to_string());
                    ensure_eq!(b.is_ok(), a.is_ok(), "{}_option vs {} on a leap second: one of them fails", $label, $label);
                    if let (Ok(a), Ok(b)) = (&a, &b) { ensure_eq!(b, a, "{}_option Some(leap second) vs {} JSON", $label, $label); }
                    let ba = call("bincode", || bincode::serialize(&$w { d: $val }))?.ok();
                    let bb = call("bincode", || bincode::serialize(&$wo { d: Some($val) }))?.ok();
                    if let (Some(ba), Some(bb)) = (ba, bb) { ensure_eq!(bb[1..].to_vec(), ba, "{}_option Some(leap second) vs {} bincode", $label, $label); }
                    a
                }};
            }
            let s1 = pair!(US, USO, lu, "ts_seconds");
            pair!(UMs, UMsO, lu, "ts_milliseconds");
            pair!(UUs, UUsO, lu, "ts_microseconds");
            pair!(UNs, UNsO, lu, "ts_nanoseconds");
            let s2 = pair!(NS_, NSO, ln, "naive ts_seconds");
            pair!(NMs, NMsO, ln, "naive ts_milliseconds");
            pair!(NUs, NUsO, ln, "naive ts_microseconds");
            pair!(NNs, NNsO, ln, "naive ts_nanoseconds");
            let want = format!("{{\"d\":{}}}", t.div_euclid(NS));
            ensure_eq!(s1.ok(), Some(want.clone()), "ts_seconds of a leap second");
            ensure_eq!(s2.ok(), Some(want), "naive ts_seconds of a leap second");
        }
        Ok(())
    }
}

// ---------------------------------------------------------------------------------------------
/// zone-aware values whose wall clock lies in the one-day headroom beyond the nominal date range
pub struct Headroom;
impl SubCheck for Headroom {
    type Case = (bool, u32, u32, i32);
    fn name(&self) -> &'static str {
        "headroom_values"
    }
    fn rule(&self) -> &'static str {
        "case = (range end, seconds from that end, nanos, whole-minute offset pushing the wall clock beyond the nominal date range); serialization must not panic and the value must come back as the same instant and offset; every case non-trivial (headroom wall clock)"
    }
    fn strategy(&self) -> Option<BoxedStrategy<Self::Case>> {
        Some((any::<bool>(), 0u32..3600, prop_oneof![1 => Just(0u32), 1 => 0u32..1_000_000_000], 1i32..=1439).prop_map(|(hi, s, n, m)| (hi, s % (m as u32 * 60), n, m * 60)).boxed())
    }
    fn check(&self, &(hi, s, n, off): &Self::Case, obs: &mut Obs) -> Result<(), String> {
        obs.nt("headroom");
        let u = if hi { Ndt { day: cal::max_day(), secs: 86_399 - s, frac: n } } else { Ndt { day: cal::min_day(), secs: s, frac: n } };
        let off = if hi { off } else { -off };
        let fo = FixedOffset::east_opt(off).ok_or("harness: offset")?;
        let dt = fo.from_utc_datetime(&conv::ndt(u));
        let js = call("serde_json::to_string (headroom value)", || serde_json::to_string(&dt))?;
        let bin = call("bincode::serialize (headroom value)", || bincode::serialize(&dt))?;
        if known::active("F18") {
            obs.excluded_known("F18");
            return Ok(());
        }
        let js = js.map_err(|e| format!("serialization of {dt:?} failed: {e}"))?;
        let back: DateTime<FixedOffset> = call("serde_json::from_str", || serde_json::from_str(&js))?.map_err(|e| format!("{js} (written for {dt:?}) does not deserialize: {e}"))?;
        ensure_eq!((back.naive_utc(), back.offset().local_minus_utc()), (dt.naive_utc(), off), "round trip of {js}");
        let bin = bin.map_err(|e| format!("bincode serialization of {dt:?} failed: {e}"))?;
        let b2: DateTime<FixedOffset> = call("bincode::deserialize", || bincode::deserialize(&bin))?.map_err(|e| format!("bincode form of {dt:?} does not deserialize: {e}"))?;
        ensure_eq!(b2.naive_utc(), dt.naive_utc(), "bincode round trip of {dt:?}");
        Ok(())
    }
}
/// F18 probe: the text written for a headroom wall clock is rejected by the reader
pub fn probe_f18() -> bool {
    let fo = FixedOffset::east_opt(3600).unwrap();
    let dt = DateTime::<Utc>::MAX_UTC.with_timezone(&fo);
    crate::guard::guard(|| format!("{dt:?}").parse::<DateTime<FixedOffset>>().is_err()).unwrap_or(true)
}

pub fn subs() -> Vec<Box<dyn DynSub>> {
    vec![Box::new(Values), Box::new(TsInt), Box::new(TsValue), Box::new(Headroom)]
}

fn probe_f15() -> bool {
    // 1918-12-31T23:59:59+09:07:57 is written with the offset rounded to +09:08 but the wall clock unrounded
    let fo = FixedOffset::east_opt(9 * 3600 + 7 * 60 + 57).unwrap();
    let dt = fo.with_ymd_and_hms(1918, 12, 31, 23, 59, 59).single().unwrap();
    match serde_json::to_string(&dt).ok().and_then(|s| serde_json::from_str::<DateTime<FixedOffset>>(&s).ok()) {
        Some(b) => b.naive_utc() != dt.naive_utc(),
        None => true,
    }
}

pub fn run(ctx: &Ctx) {
    known::activate("F15", probe_f15());
    if known::active("F15") {
        ctx.known_finding("F15", "DateTime<FixedOffset> whose offset is not a whole minute serializes to a different instant: 1918-12-31T23:59:59+09:07:57 -> \"1918-12-31T23:59:59+09:08\" (wall clock unrounded next to an offset rounded to the minute)");
    }
    known::activate("F18", probe_f18());
    if known::active("F18") {
        ctx.known_finding("F18", "a DateTime<FixedOffset> whose wall-clock date lies in the one-day headroom beyond NaiveDate::MIN/MAX is written (\"+262143-01-01T00:59:59.999999999+01:00\" for MAX_UTC at +01:00) but the reader rejects that text (OutOfRange), so it does not round-trip");
    }
    ctx.run_prop(&Headroom, ctx.n(100_000, 2_000_000));
    ctx.assume("leap seconds are excluded from the timestamp helper modules, as the statement says");
    let n = ctx.n(1_200_000, 80_000_000);
    ctx.run_prop(&Values, n);
    ctx.run_prop(&TsInt, 2 * n);
    ctx.run_prop(&TsValue, n / 2);
}
