//! C07 Time-of-day arithmetic wraps by whole days and honours leap-second operands.
use crate::engine::{Ctx, DynSub, Obs, SubCheck};
use crate::gen;
use crate::guard::call;
use crate::props::c06::{dur, D};
use crate::refmodel::cal;
use crate::refmodel::inst::{DAY_NS, NS};
use crate::{conv, ensure, ensure_eq};
use chrono::{FixedOffset, NaiveTime, TimeDelta, Timelike};
use proptest::prelude::*;
use serde::{Deserialize, Serialize};

/// model time of day: second of day + nanosecond field (>= 1e9: leap second representation)
#[derive(Clone, Copy, Debug, Serialize, Deserialize, PartialEq, Eq)]
pub struct T {
    pub secs: u32,
    pub frac: u32,
}
impl T {
    pub fn leap(self) -> bool {
        self.frac >= 1_000_000_000
    }
    /// build through the public API: seconds-from-midnight constructor, then `with_nanosecond`
    /// (the documented way to obtain a leap representation on a second other than :59)
    pub fn build(self) -> Result<NaiveTime, String> {
        let base = NaiveTime::from_num_seconds_from_midnight_opt(self.secs, self.frac % 1_000_000_000)
            .ok_or_else(|| format!("from_num_seconds_from_midnight_opt({}, {}) refused", self.secs, self.frac % 1_000_000_000))?;
        if self.leap() {
            base.with_nanosecond(self.frac).ok_or_else(|| format!("with_nanosecond({}) refused", self.frac))
        } else {
            Ok(base)
        }
    }
    pub fn of(t: &NaiveTime) -> T {
        T { secs: t.hour() * 3600 + t.minute() * 60 + t.second(), frac: t.nanosecond() }
    }
}

/// R-leap addition: returns (time, carry in seconds, always a multiple of 86400)
pub fn model_add(t: T, d: i128) -> (T, i128) {
    let p = t.secs as i128 * NS + t.frac as i128;
    let q = p + d;
    let grid = |x: i128| {
        let day = x.div_euclid(DAY_NS);
        let r = x.rem_euclid(DAY_NS);
        (T { secs: (r / NS) as u32, frac: (r % NS) as u32 }, day * 86_400)
    };
    if t.leap() {
        let l = (t.secs as i128 + 1) * NS; // the inserted second occupies [l, l + 1e9)
        if q >= l && q < l + NS {
            (T { secs: t.secs, frac: (q - l + NS) as u32 }, 0)
        } else if q < l {
            grid(q)
        } else {
            grid(q - NS)
        }
    } else {
        grid(q)
    }
}

/// R-leap difference a - b in nanoseconds
pub fn model_diff(a: T, b: T) -> i128 {
    let pos = |x: T, other: T| {
        let mut p = x.secs as i128 * NS + x.frac as i128;
        // the other operand's leap second lies strictly before this operand's second
        if other.leap() && other.secs + 1 <= x.secs {
            p += NS;
        }
        p
    };
    pos(a, b) - pos(b, a)
}

pub fn tod() -> BoxedStrategy<T> {
    let secs = prop_oneof![
        3 => 0u32..86_400,
        3 => proptest::sample::select(vec![0u32, 1, 58, 59, 60, 3599, 3600, 43_199, 43_200, 86_340, 86_398, 86_399]),
        2 => (0u32..1440).prop_map(|m| m * 60 + 59),
    ];
    let frac = prop_oneof![
        3 => 0u32..2_000_000_000,
        4 => proptest::sample::select(vec![0u32, 1, 999_999_999, 1_000_000_000, 1_000_000_001, 1_500_000_000, 1_999_999_999, 500_000_000]),
        2 => 1_000_000_000u32..2_000_000_000,
        1 => 0u32..1_000_000_000,
    ];
    (secs, frac).prop_map(|(secs, frac)| T { secs, frac }).boxed()
}

/// durations for time arithmetic: fine-grained around zero, whole days +/- small, aimed at the
/// leap-second edges of `t`, and the full range
fn dur_for(t: T) -> BoxedStrategy<D> {
    let f = t.frac as i128;
    prop_oneof![
        3 => (-2_000_000_001i128..=2_000_000_001).prop_map(D::of),
        2 => (-3i128..=3, -2_000_000_000i128..=2_000_000_000).prop_map(|(d, e)| D::of(d * DAY_NS + e)),
        3 => (proptest::sample::select(vec![-1i128, 0, 1]), -100i128..=100, proptest::sample::select(vec![0i128, 1, -1, 2, 60, -60, 86_400, -86_400])).prop_map(move |(e, _j, k)| D::of(-f + e + k * NS)),
        2 => (proptest::sample::select(vec![-1i128, 0, 1]), proptest::sample::select(vec![0i128, 1, -1, 86_399, 86_400])).prop_map(move |(e, k)| D::of(2 * NS - f + e + k * NS)),
        2 => (-200_000i128..200_000).prop_map(|s| D::of(s * NS)),
        1 => dur(),
    ]
    .boxed()
}

fn classify_t(t: T, obs: &mut Obs) {
    obs.nt_if(t.leap(), "leap_operand");
    obs.label_if(t.leap() && t.secs % 60 != 59, "leap_off_minute");
}

// ---------------------------------------------------------------------------------------------
pub struct Ctor;
impl SubCheck for Ctor {
    type Case = (u8, u32, u32, u32, u32);
    fn name(&self) -> &'static str {
        "constructors"
    }
    fn rule(&self) -> &'static str {
        "case = (constructor 0 hms | 1 milli | 2 micro | 3 nano | 4 seconds-from-midnight, h, m, s, sub-second); accepted exactly per the validity predicate; non-trivial = a field at its limit or limit+1 (23/24, 59/60, 1e9-1, 1e9, 2e9-1, 2e9 in the constructor's unit), a leap value, or a sub-second value whose scaling overflows u32"
    }
    fn strategy(&self) -> Option<BoxedStrategy<Self::Case>> {
        let h = gen::u32_edges(vec![23, 24, 12]);
        let m = gen::u32_edges(vec![59, 60]);
        let s = prop_oneof![3 => gen::u32_edges(vec![59, 60, 58]), 2 => Just(59u32), 1 => 0u32..60];
        Some(
            (0u8..5)
                .prop_flat_map(move |k| {
                    let scale: u32 = [1, 1_000_000, 1000, 1, 1][k as usize];
                    let lim1 = 1_000_000_000 / scale;
                    let sub = prop_oneof![
                        3 => gen::u32_edges(vec![lim1 - 1, lim1, 2 * lim1 - 1, 2 * lim1, u32::MAX / scale, (u32::MAX / scale).saturating_add(1), 4_294_968, 4295]),
                        2 => 0..(2 * lim1 + 2),
                    ];
                    let first = if k == 4 { prop_oneof![2 => gen::u32_edges(vec![86_399, 86_400, 86_340 + 59]), 2 => 0u32..86_400, 1 => (0u32..1440).prop_map(|m| m * 60 + 59)].boxed() } else { h.clone() };
                    (Just(k), first, m.clone(), s.clone(), sub)
                })
                .boxed(),
        )
    }
    fn check(&self, &(k, h, m, s, sub): &Self::Case, obs: &mut Obs) -> Result<(), String> {
        let scale: u128 = [0, 1_000_000, 1000, 1, 1][k as usize];
        let nano = sub as u128 * scale; // exact, may exceed u32
        let (valid, exp) = if k == 4 {
            let ok = h < 86_400 && (nano < 1_000_000_000 || (nano < 2_000_000_000 && h % 60 == 59));
            (ok, T { secs: h, frac: nano.min(u32::MAX as u128) as u32 })
        } else {
            let nano = if k == 0 { 0 } else { nano };
            let ok = h < 24 && m < 60 && s < 60 && (nano < 1_000_000_000 || (nano < 2_000_000_000 && s == 59));
            (ok, T { secs: h.wrapping_mul(3600).wrapping_add(m.wrapping_mul(60)).wrapping_add(s), frac: nano.min(u32::MAX as u128) as u32 })
        };
        let lim1 = (1_000_000_000u128 / scale.max(1)) as u32;
        obs.nt_if(matches!(h, 23 | 24 | 86_399 | 86_400) || matches!(m, 59 | 60) && k != 4 || matches!(s, 59 | 60) && k != 4, "field_at_limit");
        obs.nt_if(k != 0 && (sub == lim1 - 1 || sub == lim1 || sub == 2 * lim1 - 1 || sub == 2 * lim1), "subsec_at_limit");
        obs.nt_if(valid && nano >= 1_000_000_000, "leap_accepted");
        obs.nt_if(nano > u32::MAX as u128, "scaling_overflows_u32");
        obs.label(if valid { "accepted" } else { "refused" });
        let got = match k {
            0 => call("from_hms_opt", || NaiveTime::from_hms_opt(h, m, s))?,
            1 => call("from_hms_milli_opt", || NaiveTime::from_hms_milli_opt(h, m, s, sub))?,
            2 => call("from_hms_micro_opt", || NaiveTime::from_hms_micro_opt(h, m, s, sub))?,
            3 => call("from_hms_nano_opt", || NaiveTime::from_hms_nano_opt(h, m, s, sub))?,
            _ => call("from_num_seconds_from_midnight_opt", || NaiveTime::from_num_seconds_from_midnight_opt(h, sub))?,
        };
        match got {
            Some(t) => {
                ensure!(valid, "constructor {k} accepted ({h}, {m}, {s}, {sub})");
                ensure_eq!(T::of(&t), exp, "constructor {k} ({h}, {m}, {s}, {sub}) fields");
                ensure_eq!(t.num_seconds_from_midnight(), exp.secs, "num_seconds_from_midnight");
                let (pm, h12) = t.hour12();
                ensure_eq!((pm, h12), (exp.secs / 3600 >= 12, (exp.secs / 3600 + 11) % 12 + 1), "hour12");
            }
            None => ensure!(!valid, "constructor {k} refused the valid time ({h}, {m}, {s}, {sub})"),
        }
        // the other constructors of the same forms: the panicking (deprecated) spelling and the
        // date-time builders on NaiveDate agree with the fallible constructor
        #[allow(deprecated)]
        {
            let d = chrono::NaiveDate::from_ymd_opt(2001, 2, 3).ok_or("harness: date")?;
            let via_date = match k {
                0 => Some(call("and_hms_opt", || d.and_hms_opt(h, m, s))?),
                1 => Some(call("and_hms_milli_opt", || d.and_hms_milli_opt(h, m, s, sub))?),
                2 => Some(call("and_hms_micro_opt", || d.and_hms_micro_opt(h, m, s, sub))?),
                3 => Some(call("and_hms_nano_opt", || d.and_hms_nano_opt(h, m, s, sub))?),
                _ => None,
            };
            if let Some(v) = via_date {
                ensure_eq!(v, got.map(|t| d.and_time(t)), "NaiveDate::and_hms*_opt form {k} ({h}, {m}, {s}, {sub}) vs NaiveTime constructor");
            }
            let pan = crate::guard::guard(|| match k {
                0 => NaiveTime::from_hms(h, m, s),
                1 => NaiveTime::from_hms_milli(h, m, s, sub),
                2 => NaiveTime::from_hms_micro(h, m, s, sub),
                3 => NaiveTime::from_hms_nano(h, m, s, sub),
                _ => NaiveTime::from_num_seconds_from_midnight(h, sub),
            });
            ensure_eq!(pan.ok(), got, "panicking constructor form {k} ({h}, {m}, {s}, {sub}) vs the fallible one (panic <-> None)");
            let pand = crate::guard::guard(|| match k {
                0 => d.and_hms(h, m, s),
                1 => d.and_hms_milli(h, m, s, sub),
                2 => d.and_hms_micro(h, m, s, sub),
                _ => d.and_hms_nano(h, m, s, sub),
            });
            if k < 4 {
                ensure_eq!(pand.ok(), got.map(|t| d.and_time(t)), "panicking NaiveDate::and_hms* form {k} ({h}, {m}, {s}, {sub})");
            }
        }
        Ok(())
    }
}

// ---------------------------------------------------------------------------------------------
pub struct Replace;
impl SubCheck for Replace {
    type Case = (T, u8, u32);
    fn name(&self) -> &'static str {
        "replace_field"
    }
    fn rule(&self) -> &'static str {
        "case = (time, field 0 hour | 1 minute | 2 second | 3 nanosecond, new value); exactly the named field changes, or None when no such time; non-trivial = value at limit or limit+1, or a leap operand"
    }
    fn strategy(&self) -> Option<BoxedStrategy<Self::Case>> {
        Some((tod(), 0u8..4).prop_flat_map(|(t, f)| {
            let v = match f {
                0 => gen::u32_edges(vec![23, 24, 12]),
                1 | 2 => gen::u32_edges(vec![59, 60]),
                _ => prop_oneof![2 => gen::u32_edges(vec![999_999_999, 1_000_000_000, 1_999_999_999, 2_000_000_000]), 1 => 0u32..2_000_000_000].boxed(),
            };
            (Just(t), Just(f), v)
        }).boxed())
    }
    fn check(&self, &(t, f, v): &Self::Case, obs: &mut Obs) -> Result<(), String> {
        classify_t(t, obs);
        let x = t.build()?;
        let (h, m, s) = (t.secs / 3600, t.secs / 60 % 60, t.secs % 60);
        ensure_eq!((x.hour(), x.minute(), x.second(), x.nanosecond()), (h, m, s, t.frac), "accessors of {t:?}");
        let lim = [24u32, 60, 60, 2_000_000_000][f as usize];
        obs.nt_if(v.wrapping_add(1) == lim || v == lim, "value_at_limit");
        let got = match f {
            0 => call("with_hour", || x.with_hour(v))?,
            1 => call("with_minute", || x.with_minute(v))?,
            2 => call("with_second", || x.with_second(v))?,
            _ => call("with_nanosecond", || x.with_nanosecond(v))?,
        };
        let exp = if v < lim {
            Some(match f {
                0 => T { secs: v * 3600 + m * 60 + s, frac: t.frac },
                1 => T { secs: h * 3600 + v * 60 + s, frac: t.frac },
                2 => T { secs: h * 3600 + m * 60 + v, frac: t.frac },
                _ => T { secs: t.secs, frac: v },
            })
        } else {
            None
        };
        ensure_eq!(got.as_ref().map(T::of), exp, "replacement of field {f} by {v} in {t:?}");
        Ok(())
    }
}

// ---------------------------------------------------------------------------------------------
pub struct Add;
impl SubCheck for Add {
    type Case = (T, D);
    fn name(&self) -> &'static str {
        "add_duration"
    }
    fn rule(&self) -> &'static str {
        "case = (time incl. leap representations on any second, duration); overflowing_add_signed/sub_signed and the wrapping operators against the one-leap-second timeline model; non-trivial = leap operand, or the result crosses midnight, or the sub-second part of the duration has the opposite sign of the step that decides the second"
    }
    fn strategy(&self) -> Option<BoxedStrategy<Self::Case>> {
        Some(tod().prop_flat_map(|t| (Just(t), dur_for(t))).boxed())
    }
    fn check(&self, &(t, c): &Self::Case, obs: &mut Obs) -> Result<(), String> {
        classify_t(t, obs);
        let d = c.ns();
        let x = t.build()?;
        let td = c.td()?;
        let (exp, carry) = model_add(t, d);
        obs.nt_if(carry != 0, "crosses_midnight");
        obs.nt_if(d != 0 && d % NS != 0 && d.abs() > NS, "mixed_seconds_and_fraction");
        if t.leap() {
            obs.label(if exp.leap() { "stays_in_leap" } else if d > 0 { "skips_leap" } else { "leaves_leap_backwards" });
        }
        let (got, gc) = call("overflowing_add_signed", || x.overflowing_add_signed(td))?;
        ensure_eq!((T::of(&got), gc as i128), (exp, carry), "{t:?} + {d} ns");
        ensure!(gc % 86_400 == 0, "carry {gc} is not a whole number of days");
        // subtraction = addition of the negated duration (carry as reported by the sub form is negated)
        let (sg, sc) = call("overflowing_sub_signed", || x.overflowing_sub_signed(-td))?;
        ensure_eq!((T::of(&sg), -(sc as i128)), (exp, carry), "{t:?} - ({} ns) vs + {d} ns", -d);
        let (mexp, mcarry) = model_add(t, -d);
        let (sg2, sc2) = call("overflowing_sub_signed", || x.overflowing_sub_signed(td))?;
        ensure_eq!((T::of(&sg2), sc2 as i128), (mexp, -mcarry), "{t:?} - {d} ns");
        // wrapping operators
        ensure_eq!(T::of(&call("Add", || x + td)?), exp, "operator + ");
        ensure_eq!(T::of(&call("Sub", || x - td)?), mexp, "operator - ");
        let mut y = x;
        call("AddAssign", || y += td)?;
        ensure_eq!(T::of(&y), exp, "operator +=");
        let mut y = x;
        call("SubAssign", || y -= td)?;
        ensure_eq!(T::of(&y), mexp, "operator -=");
        if d >= 0 {
            let sd = td.to_std().map_err(|_| "harness: to_std")?;
            ensure_eq!(T::of(&call("Add<Duration>", || x + sd)?), exp, "operator + std Duration");
            ensure_eq!(T::of(&call("Sub<Duration>", || x - sd)?), mexp, "operator - std Duration");
            // std durations reach far beyond TimeDelta: whole days on top, up to u64::MAX seconds
            let room = (u64::MAX - sd.as_secs()) / 86_400;
            let k = [1u64, 2, 3, 4, 1_000_001, room - 1, room][((t.secs as u64 + c.n as u64) % 7) as usize].min(room);
            let big = std::time::Duration::new(sd.as_secs() + k * 86_400, sd.subsec_nanos());
            let bd = d + k as i128 * DAY_NS;
            ensure_eq!(T::of(&call("Add<Duration>", || x + big)?), model_add(t, bd).0, "operator + std Duration of {bd} ns");
            ensure_eq!(T::of(&call("Sub<Duration>", || x - big)?), model_add(t, -bd).0, "operator - std Duration of {bd} ns");
            let mut y = x;
            call("AddAssign<Duration>", || y += big)?;
            ensure_eq!(T::of(&y), model_add(t, bd).0, "operator += std Duration of {bd} ns");
            let mut y = x;
            call("SubAssign<Duration>", || y -= big)?;
            ensure_eq!(T::of(&y), model_add(t, -bd).0, "operator -= std Duration of {bd} ns");
        }
        // validity of the result
        ensure!(exp.secs < 86_400 && got.nanosecond() < 2_000_000_000, "invalid time returned");
        Ok(())
    }
}

// ---------------------------------------------------------------------------------------------
pub struct Diff;
impl SubCheck for Diff {
    type Case = (T, T);
    fn name(&self) -> &'static str {
        "difference"
    }
    fn rule(&self) -> &'static str {
        "case = two times of day; signed_duration_since against the timeline model (the other operand's leap second counted when it lies strictly between), antisymmetric, operator form; non-trivial = at least one leap operand, or the times are less than 2 s apart"
    }
    fn strategy(&self) -> Option<BoxedStrategy<Self::Case>> {
        Some(
            prop_oneof![
                3 => (tod(), tod()),
                3 => (tod(), -2i64..=2, 0u32..2_000_000_000).prop_map(|(a, ds, f)| (a, T { secs: (a.secs as i64 + ds).clamp(0, 86_399) as u32, frac: f })),
            ]
            .boxed(),
        )
    }
    fn check(&self, &(a, b): &Self::Case, obs: &mut Obs) -> Result<(), String> {
        classify_t(a, obs);
        classify_t(b, obs);
        obs.nt_if((a.secs as i64 - b.secs as i64).abs() <= 2, "close");
        obs.label_if(a.leap() && b.leap(), "both_leap");
        let (x, y) = (a.build()?, b.build()?);
        let exp = model_diff(a, b);
        let got = call("signed_duration_since", || x.signed_duration_since(y))?;
        ensure_eq!(conv::td_ns(&got), exp, "{a:?} - {b:?}");
        let rev = call("signed_duration_since", || y.signed_duration_since(x))?;
        ensure_eq!(conv::td_ns(&rev), -exp, "antisymmetry: {b:?} - {a:?}");
        ensure_eq!(call("Sub", || x - y)?, got, "operator a - b");
        // order follows (secs, frac)
        ensure_eq!(x.cmp(&y), (a.secs, a.frac).cmp(&(b.secs, b.frac)), "Ord of times");
        Ok(())
    }
}

// ---------------------------------------------------------------------------------------------
pub struct Offset;
impl SubCheck for Offset {
    type Case = (T, i32);
    fn name(&self) -> &'static str {
        "offset_shift"
    }
    fn rule(&self) -> &'static str {
        "case = (time, offset seconds); time +/- FixedOffset wraps by whole days and keeps the nanosecond field including a leap representation; non-trivial = leap operand or the shift crosses midnight"
    }
    fn strategy(&self) -> Option<BoxedStrategy<Self::Case>> {
        Some((tod(), gen::offset_secs()).boxed())
    }
    fn check(&self, &(t, off): &Self::Case, obs: &mut Obs) -> Result<(), String> {
        classify_t(t, obs);
        let x = t.build()?;
        let fo = FixedOffset::east_opt(off).ok_or("harness: offset")?;
        let plus = (t.secs as i64 + off as i64).rem_euclid(86_400) as u32;
        let minus = (t.secs as i64 - off as i64).rem_euclid(86_400) as u32;
        obs.nt_if(t.secs as i64 + off as i64 >= 86_400 || (t.secs as i64 + off as i64) < 0, "crosses_midnight");
        ensure_eq!(T::of(&call("Add<FixedOffset>", || x + fo)?), T { secs: plus, frac: t.frac }, "{t:?} + offset {off}");
        ensure_eq!(T::of(&call("Sub<FixedOffset>", || x - fo)?), T { secs: minus, frac: t.frac }, "{t:?} - offset {off}");
        Ok(())
    }
}

// ---------------------------------------------------------------------------------------------
pub struct DtLeap;
impl SubCheck for DtLeap {
    type Case = (i64, T, D);
    fn name(&self) -> &'static str {
        "datetime_leap"
    }
    fn rule(&self) -> &'static str {
        "case = (date, time incl. leap, duration); NaiveDateTime::checked_add/sub_signed = model time with the day carry applied to the date, None exactly when that date is out of range; non-trivial = leap operand or non-zero carry"
    }
    fn strategy(&self) -> Option<BoxedStrategy<Self::Case>> {
        Some((gen::day(), tod()).prop_flat_map(|(z, t)| (Just(z), Just(t), dur_for(t))).boxed())
    }
    fn check(&self, &(z, t, c): &Self::Case, obs: &mut Obs) -> Result<(), String> {
        classify_t(t, obs);
        let d = c.ns();
        let ndt = conv::date(z).and_time(t.build()?);
        let td = c.td()?;
        // accessors of the date-time wrappers name the same fields as the time of day
        {
            use chrono::Timelike;
            let (h, mi, se) = (t.secs / 3600, t.secs / 60 % 60, t.secs % 60);
            let zdt = ndt.and_utc();
            ensure_eq!((ndt.hour(), ndt.minute(), ndt.second(), ndt.nanosecond()), (h, mi, se, t.frac), "NaiveDateTime accessors of {t:?}");
            ensure_eq!((zdt.hour(), zdt.minute(), zdt.second(), zdt.nanosecond()), (h, mi, se, t.frac), "DateTime<Utc> accessors of {t:?}");
            ensure_eq!(ndt.num_seconds_from_midnight(), t.secs, "NaiveDateTime::num_seconds_from_midnight of {t:?}");
            ensure_eq!(zdt.num_seconds_from_midnight(), t.secs, "DateTime::num_seconds_from_midnight of {t:?}");
            let h12 = (h >= 12, if h % 12 == 0 { 12 } else { h % 12 });
            ensure_eq!(ndt.hour12(), h12, "NaiveDateTime::hour12 of {t:?}");
            ensure_eq!(zdt.hour12(), h12, "DateTime::hour12 of {t:?}");
        }
        // the std::time::Duration operator forms of the date-time wrapper follow the same rules
        if d >= 0 {
            let sd = td.to_std().map_err(|_| "harness: to_std")?;
            for neg in [false, true] {
                let want = call("checked form", || if neg { ndt.checked_sub_signed(td) } else { ndt.checked_add_signed(td) })?;
                if let Some(w) = want {
                    ensure_eq!(call("NaiveDateTime std Duration operator", || if neg { ndt - sd } else { ndt + sd })?, w, "NaiveDateTime {} std::time::Duration of {d} ns on {t:?}", if neg { "-" } else { "+" });
                    let mut x = ndt;
                    call("NaiveDateTime std Duration assign", || if neg { x -= sd } else { x += sd })?;
                    ensure_eq!(x, w, "NaiveDateTime {}= std::time::Duration of {d} ns on {t:?}", if neg { "-" } else { "+" });
                    ensure_eq!(call("DateTime std Duration operator", || if neg { ndt.and_utc() - sd } else { ndt.and_utc() + sd })?.naive_utc(), w, "DateTime<Utc> {} std::time::Duration of {d} ns on {t:?}", if neg { "-" } else { "+" });
                }
            }
        }
        for (name, dd, neg) in [("checked_add_signed", d, false), ("checked_sub_signed", -d, true)] {
            let (et, carry) = model_add(t, dd);
            obs.nt_if(carry != 0, "day_carry");
            let ez = z as i128 + carry / 86_400;
            let ok = ez >= cal::min_day() as i128 && ez <= cal::max_day() as i128;
            let got = call(name, || if neg { ndt.checked_sub_signed(td) } else { ndt.checked_add_signed(td) })?;
            match got {
                Some(r) => {
                    ensure!(ok, "NaiveDateTime::{name} returned Some for an unrepresentable date (day {ez})");
                    ensure_eq!((conv::unix_day_of(r.date()) as i128, T::of(&r.time())), (ez, et), "NaiveDateTime::{name}(day {z} {t:?}, {d} ns)");
                }
                None => ensure!(!ok, "NaiveDateTime::{name}(day {z} {t:?}, {d} ns) = None although day {ez} is representable"),
            }
        }
        let _ = TimeDelta::zero();
        Ok(())
    }
}

// ---------------------------------------------------------------------------------------------
pub struct DtDiff;
impl SubCheck for DtDiff {
    type Case = (i64, T, i64, T);
    fn name(&self) -> &'static str {
        "datetime_difference"
    }
    fn rule(&self) -> &'static str {
        "case = two (date, time incl. leap representations); NaiveDateTime::signed_duration_since and the - operator (also through DateTime<Utc>) = whole days between the dates plus the time-of-day difference of the timeline model, antisymmetric; non-trivial = a leap operand with the dates different, or a leap operand and times less than 2 s apart"
    }
    fn strategy(&self) -> Option<BoxedStrategy<Self::Case>> {
        let near = (gen::day(), tod(), -3i64..=3, -2i64..=2, 0u32..2_000_000_000).prop_map(|(z, a, dz, ds, f)| {
            let zb = (z + dz).clamp(cal::min_day(), cal::max_day());
            (z, a, zb, T { secs: (a.secs as i64 + ds).clamp(0, 86_399) as u32, frac: f })
        });
        Some(prop_oneof![3 => near, 2 => (gen::day(), tod(), gen::day(), tod()), 2 => (gen::day(), tod(), -400i64..=400, tod()).prop_map(|(z, a, dz, b)| (z, a, (z + dz).clamp(cal::min_day(), cal::max_day()), b))].boxed())
    }
    fn check(&self, &(za, ta, zb, tb): &Self::Case, obs: &mut Obs) -> Result<(), String> {
        classify_t(ta, obs);
        classify_t(tb, obs);
        obs.nt_if((ta.leap() || tb.leap()) && za != zb, "leap_operand_on_another_date");
        obs.nt_if((ta.leap() || tb.leap()) && (ta.secs as i64 - tb.secs as i64).abs() <= 2, "leap_operand_close_times");
        let a = conv::date(za).and_time(ta.build()?);
        let b = conv::date(zb).and_time(tb.build()?);
        let exp = (za - zb) as i128 * 86_400 * NS + model_diff(ta, tb);
        let ns = |d: TimeDelta| d.num_seconds() as i128 * NS + d.subsec_nanos() as i128;
        let got = call("NaiveDateTime::signed_duration_since", || a.signed_duration_since(b))?;
        ensure_eq!(ns(got), exp, "({za}, {ta:?}) - ({zb}, {tb:?})");
        ensure_eq!(ns(call("NaiveDateTime::signed_duration_since", || b.signed_duration_since(a))?), -exp, "antisymmetry of ({za}, {ta:?}) - ({zb}, {tb:?})");
        ensure_eq!(call("NaiveDateTime - NaiveDateTime", || a - b)?, got, "operator form");
        ensure_eq!(call("DateTime - DateTime", || a.and_utc() - b.and_utc())?, got, "DateTime<Utc> operator form");
        ensure_eq!(call("DateTime::signed_duration_since", || a.and_utc().signed_duration_since(b.and_utc()))?, got, "DateTime<Utc>::signed_duration_since");
        // the by-reference operator forms and the borrowed argument of signed_duration_since
        let (ua, ub) = (a.and_utc(), b.and_utc());
        ensure_eq!(call("DateTime - &DateTime", || ua - &ub)?, got, "DateTime<Utc> - &DateTime<Utc>");
        ensure_eq!(ns(call("DateTime - &DateTime", || ub - &ua)?), -exp, "DateTime<Utc> - &DateTime<Utc>, operands swapped");
        ensure_eq!(call("DateTime::signed_duration_since(&)", || ua.signed_duration_since(&ub))?, got, "DateTime<Utc>::signed_duration_since(&other)");
        let fo = chrono::FixedOffset::east_opt(((za + zb).rem_euclid(47) as i32 - 23) * 1800 + (ta.secs % 2) as i32 * 7).ok_or("harness: offset")?;
        if let (Some(fa), Some(fb)) = (crate::guard::guard(|| ua.with_timezone(&fo)).ok(), crate::guard::guard(|| ub.with_timezone(&chrono::FixedOffset::east_opt(0).unwrap())).ok()) {
            ensure_eq!(call("DateTime<FixedOffset> - &DateTime<FixedOffset>", || fa - &fb)?, got, "DateTime<FixedOffset> - &DateTime<FixedOffset> (offsets {} and 0)", fo.local_minus_utc());
            ensure_eq!(call("DateTime<FixedOffset> - DateTime<FixedOffset>", || fa - fb)?, got, "DateTime<FixedOffset> - DateTime<FixedOffset> (offsets {} and 0)", fo.local_minus_utc());
        }
        Ok(())
    }
}

pub fn subs() -> Vec<Box<dyn DynSub>> {
    vec![Box::new(Ctor), Box::new(Replace), Box::new(Add), Box::new(Diff), Box::new(Offset), Box::new(DtLeap), Box::new(DtDiff)]
}

pub fn run(ctx: &Ctx) {
    // the twelve documented examples pin the model itself
    let t = |h: u32, m: u32, s: u32, f: u32| T { secs: h * 3600 + m * 60 + s, frac: f };
    let s = |x: f64| (x * 1e9).round() as i128;
    let docs: [(T, i128, T); 14] = [
        (t(3, 0, 0, 0), s(1.0), t(3, 0, 1, 0)),
        (t(3, 0, 59, 0), s(60.0), t(3, 1, 59, 0)),
        (t(3, 0, 59, 0), s(61.0), t(3, 2, 0, 0)),
        (t(3, 0, 59, 0), s(1.0), t(3, 1, 0, 0)),
        (t(3, 0, 59, 1_000_000_000), s(1.0), t(3, 1, 0, 0)),
        (t(3, 0, 59, 1_000_000_000), s(60.0), t(3, 1, 59, 0)),
        (t(3, 0, 59, 1_000_000_000), s(61.0), t(3, 2, 0, 0)),
        (t(3, 0, 59, 1_100_000_000), s(0.8), t(3, 0, 59, 1_900_000_000)),
        (t(3, 0, 0, 0), s(-1.0), t(2, 59, 59, 0)),
        (t(3, 1, 0, 0), s(-1.0), t(3, 0, 59, 0)),
        (t(3, 1, 0, 0), s(-60.0), t(3, 0, 0, 0)),
        (t(3, 0, 59, 1_000_000_000), s(-60.0), t(3, 0, 0, 0)),
        (t(3, 0, 59, 1_700_000_000), s(-0.4), t(3, 0, 59, 1_300_000_000)),
        (t(3, 0, 59, 1_700_000_000), s(-0.9), t(3, 0, 59, 800_000_000)),
    ];
    for (a, d, e) in docs {
        assert_eq!(model_add(a, d).0, e, "R-leap model disagrees with a documented example: {a:?} + {d}");
    }
    assert_eq!(model_diff(t(4, 0, 59, 1_900_000_000), t(3, 0, 59, 1_100_000_000)), s(3601.8));
    assert_eq!(model_diff(t(3, 1, 0, 0), t(3, 0, 59, 1_500_000_000)), s(0.5));
    assert_eq!(model_diff(t(3, 0, 59, 1_600_000_000), t(3, 0, 59, 400_000_000)), s(1.2));
    assert_eq!(model_diff(t(3, 0, 59, 1_000_000_000), t(3, 0, 0, 0)), s(60.0));

    let n = ctx.n(3_000_000, 300_000_000);
    ctx.run_prop(&Ctor, n);
    ctx.run_prop(&Replace, n / 2);
    ctx.run_prop(&Add, n);
    ctx.run_prop(&Diff, n);
    ctx.run_prop(&Offset, n / 2);
    ctx.run_prop(&DtLeap, n / 2);
    ctx.run_prop(&DtDiff, n / 2);
}
