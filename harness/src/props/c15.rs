//! C15 Fallible operations fail by value, not by panic or hang.
use crate::engine::{Ctx, DynSub, Obs, SubCheck};
use crate::gen;
use crate::guard::call;
use crate::props::c01::WD;
use crate::props::c04::{representable, shift};
use crate::props::c06::D;
use crate::props::c07::T;
use crate::props::c19::MONTHS;
use crate::refmodel::cal;
use crate::refmodel::inst::{Ndt, TD_MAX_NS};
use crate::{conv, ensure};
use chrono::format::{Item, Parsed, StrftimeItems};
use chrono::{DateTime, Datelike, Days, DurationRound, FixedOffset, Local, Month, Months, NaiveDate, NaiveDateTime, NaiveTime, SecondsFormat, SubsecRound, TimeDelta, TimeZone, Timelike, Utc, Weekday};
use proptest::prelude::*;
use serde::{Deserialize, Serialize};
use std::fmt::Write as _;

// ------------------------------------------------------------------------------------ invariants
pub fn inv_date(what: &str, d: &NaiveDate) -> Result<(), String> {
    ensure!(*d >= NaiveDate::MIN && *d <= NaiveDate::MAX, "{what}: date {d:?} outside [MIN, MAX]");
    ensure!(NaiveDate::from_ymd_opt(d.year(), d.month(), d.day()) == Some(*d), "{what}: date {d:?} is not the date of its own fields");
    ensure!(NaiveDate::from_yo_opt(d.year(), d.ordinal()) == Some(*d), "{what}: date {d:?} is not the date of its own ordinal");
    Ok(())
}
pub fn inv_time(what: &str, t: &NaiveTime) -> Result<(), String> {
    ensure!(t.num_seconds_from_midnight() < 86_400 && t.nanosecond() < 2_000_000_000, "{what}: invalid time {t:?}");
    Ok(())
}
pub fn inv_ndt(what: &str, n: &NaiveDateTime) -> Result<(), String> {
    inv_date(what, &n.date())?;
    inv_time(what, &n.time())
}
pub fn inv_dt<Tz: TimeZone>(what: &str, d: &DateTime<Tz>) -> Result<(), String> {
    inv_ndt(what, &d.naive_utc())?;
    let ts = d.timestamp();
    ensure!(ts >= DateTime::<Utc>::MIN_UTC.timestamp() && ts <= DateTime::<Utc>::MAX_UTC.timestamp(), "{what}: DateTime beyond [MIN_UTC, MAX_UTC]");
    Ok(())
}
pub fn inv_td(what: &str, d: &TimeDelta) -> Result<(), String> {
    let v = crate::props::c06::ns_of(d);
    ensure!(v.abs() <= TD_MAX_NS, "{what}: TimeDelta {v} ns outside the closed range");
    Ok(())
}

// ----------------------------------------------------------------------------------------- sweep
#[derive(Clone, Debug, Serialize, Deserialize)]
pub struct SweepCase {
    pub op: u16,
    /// receiver: wall-clock (day, time) and offset (for zone-aware receivers the wall clock may be in the headroom)
    pub day: i64,
    pub t: T,
    pub off: i32,
    pub a: i64,
    pub b: i64,
    pub c: i64,
    pub d: i64,
}
pub const N_OPS: u16 = 99;

fn extreme_i64() -> BoxedStrategy<i64> {
    prop_oneof![
        4 => proptest::sample::select(vec![i64::MIN, i64::MIN + 1, i64::MAX, i64::MAX - 1, i32::MIN as i64, i32::MIN as i64 - 1, i32::MAX as i64, i32::MAX as i64 + 1, u32::MAX as i64, u32::MAX as i64 - 1, u32::MAX as i64 + 1, 0, 1, -1, 255, 256, u16::MAX as i64,
            cal::MIN_YEAR, cal::MIN_YEAR - 1, cal::MAX_YEAR, cal::MAX_YEAR + 1, 86_399, 86_400, 999_999_999, 1_000_000_000, 1_999_999_999, 2_000_000_000, 59, 60, 23, 24, 12, 13, 31, 32, 28, 29, 30, 365, 366, 367, 53, 54]),
        2 => any::<i64>(),
        2 => -100i64..400,
        3 => gen::i64_edges(vec![(cal::min_day() + cal::CE_SHIFT), (cal::max_day() + cal::CE_SHIFT), -8_334_601_228_800, 8_210_266_876_799]),
    ]
    .boxed()
}
fn receiver() -> BoxedStrategy<(i64, T, i32)> {
    let end_day = prop_oneof![Just(cal::min_day()), Just(cal::max_day()), Just(cal::min_day() + 1), Just(cal::max_day() - 1), Just(cal::days_from_civil(cal::MIN_YEAR, 12, 31)), Just(cal::days_from_civil(cal::MAX_YEAR, 1, 1))];
    let time = prop_oneof![3 => crate::props::c07::tod(), 2 => proptest::sample::select(vec![T { secs: 0, frac: 0 }, T { secs: 86_399, frac: 999_999_999 }, T { secs: 86_399, frac: 1_999_999_999 }, T { secs: 86_399, frac: 0 }, T { secs: 1, frac: 0 }])];
    let off = prop_oneof![2 => gen::offset_secs(), 2 => proptest::sample::select(vec![0, 1, -1, 3600, -3600, 86_399, -86_399, 60, -60])];
    (prop_oneof![3 => end_day, 2 => gen::day()], time, off).boxed()
}

/// build the zone-aware receiver: the instant is (day, t) read as UTC, shown at `off`
/// (so at the range ends the wall clock lies in the headroom)
fn zoned(c: &SweepCase) -> Result<DateTime<FixedOffset>, String> {
    let fo = FixedOffset::east_opt(c.off).ok_or("harness: offset")?;
    let t = if c.day == cal::max_day() && c.t.secs == 86_399 && c.t.leap() { T { secs: c.t.secs, frac: c.t.frac - 1_000_000_000 } } else { c.t };
    Ok(fo.from_utc_datetime(&conv::date(c.day).and_time(t.build()?)))
}

pub struct Sweep;
impl SubCheck for Sweep {
    type Case = SweepCase;
    fn name(&self) -> &'static str {
        "api_sweep"
    }
    fn rule(&self) -> &'static str {
        "case = (entry point index over 99 groups of public fallible operations (incl. the deprecated NaiveDateTime::from_timestamp_* family, rounding receivers at the 64-bit nanosecond window ends, occurrence counts over the whole u8 range), receiver value biased to both range ends incl. headroom wall clocks, four i64 arguments biased to integer extremes and field limits); the call must return normally and any returned value must satisfy its type's invariants; non-trivial = an argument is an integer extreme, or the receiver is within a day of a range end"
    }
    fn strategy(&self) -> Option<BoxedStrategy<SweepCase>> {
        Some((0u16..N_OPS, receiver(), extreme_i64(), extreme_i64(), extreme_i64(), extreme_i64()).prop_map(|(op, (day, t, off), a, b, c, d)| SweepCase { op, day, t, off, a, b, c, d }).boxed())
    }
    fn check(&self, c: &SweepCase, obs: &mut Obs) -> Result<(), String> {
        let ext = |v: i64| v == i64::MIN || v == i64::MAX || v == i32::MIN as i64 || v == i32::MAX as i64 || v == u32::MAX as i64 || v == i64::MIN + 1;
        obs.nt_if(ext(c.a) || ext(c.b) || ext(c.c) || ext(c.d), "integer_extreme");
        obs.nt_if(c.day - cal::min_day() <= 1 || cal::max_day() - c.day <= 1, "receiver_at_range_end");
        let (a, b, cc, d) = (c.a, c.b, c.c, c.d);
        let date = conv::date(c.day);
        let time = c.t.build()?;
        let ndt = date.and_time(time);
        let z = zoned(c)?;
        let wd = WD[(a.rem_euclid(7)) as usize];
        let td = D::of((a as i128 * 1_000_000_007 + b as i128).clamp(-TD_MAX_NS, TD_MAX_NS)).td()?;
        let td2 = [TimeDelta::MAX, TimeDelta::MIN, TimeDelta::zero(), TimeDelta::nanoseconds(1), TimeDelta::nanoseconds(-1), td][(b.rem_euclid(6)) as usize];
        let fo2 = FixedOffset::east_opt((cc % 86_400) as i32).ok_or("harness: offset")?;
        macro_rules! od { ($w:expr, $e:expr) => {{ if let Some(x) = call($w, || $e)? { inv_date($w, &x)?; } }}; }
        macro_rules! ot { ($w:expr, $e:expr) => {{ if let Some(x) = call($w, || $e)? { inv_time($w, &x)?; } }}; }
        macro_rules! on { ($w:expr, $e:expr) => {{ if let Some(x) = call($w, || $e)? { inv_ndt($w, &x)?; } }}; }
        macro_rules! oz { ($w:expr, $e:expr) => {{ if let Some(x) = call($w, || $e)? { inv_dt($w, &x)?; } }}; }
        macro_rules! odur { ($w:expr, $e:expr) => {{ if let Some(x) = call($w, || $e)? { inv_td($w, &x)?; } }}; }
        match c.op {
            0 => od!("NaiveDate::from_ymd_opt", NaiveDate::from_ymd_opt(a as i32, b as u32, cc as u32)),
            1 => od!("NaiveDate::from_yo_opt", NaiveDate::from_yo_opt(a as i32, b as u32)),
            2 => od!("NaiveDate::from_isoywd_opt", NaiveDate::from_isoywd_opt(b as i32, cc as u32, wd)),
            3 => od!("NaiveDate::from_num_days_from_ce_opt", NaiveDate::from_num_days_from_ce_opt(a as i32)),
            4 => od!("NaiveDate::from_weekday_of_month_opt", NaiveDate::from_weekday_of_month_opt(b as i32, cc as u32, wd, d as u8)),
            5 => od!("NaiveDate::checked_add_months", date.checked_add_months(Months::new(a as u32))),
            6 => od!("NaiveDate::checked_sub_months", date.checked_sub_months(Months::new(a as u32))),
            7 => od!("NaiveDate::checked_add_days", date.checked_add_days(Days::new(a as u64))),
            8 => od!("NaiveDate::checked_sub_days", date.checked_sub_days(Days::new(a as u64))),
            9 => od!("NaiveDate::checked_add_signed", date.checked_add_signed(td2)),
            10 => od!("NaiveDate::checked_sub_signed", date.checked_sub_signed(td2)),
            11 => { od!("NaiveDate::succ_opt", date.succ_opt()); od!("NaiveDate::pred_opt", date.pred_opt()); }
            12 => on!("NaiveDate::and_hms_opt", date.and_hms_opt(a as u32, b as u32, cc as u32)),
            13 => on!("NaiveDate::and_hms_milli_opt", date.and_hms_milli_opt(a as u32, b as u32, cc as u32, d as u32)),
            14 => on!("NaiveDate::and_hms_micro_opt", date.and_hms_micro_opt(a as u32, b as u32, cc as u32, d as u32)),
            15 => on!("NaiveDate::and_hms_nano_opt", date.and_hms_nano_opt(a as u32, b as u32, cc as u32, d as u32)),
            16 => od!("NaiveDate::with_year", date.with_year(a as i32)),
            17 => { od!("NaiveDate::with_month", date.with_month(a as u32)); od!("NaiveDate::with_month0", date.with_month0(a as u32)); }
            18 => { od!("NaiveDate::with_day", date.with_day(a as u32)); od!("NaiveDate::with_day0", date.with_day0(a as u32)); }
            19 => { od!("NaiveDate::with_ordinal", date.with_ordinal(a as u32)); od!("NaiveDate::with_ordinal0", date.with_ordinal0(a as u32)); }
            20 => { let w = date.week(wd); od!("NaiveWeek::checked_first_day", w.checked_first_day()); od!("NaiveWeek::checked_last_day", w.checked_last_day()); let _ = call("NaiveWeek::checked_days", || w.checked_days())?; }
            21 => { let _ = call("NaiveDate::years_since", || date.years_since(NaiveDate::from_num_days_from_ce_opt(a as i32).unwrap_or(NaiveDate::MIN)))?; }
            22 => ot!("NaiveTime::from_hms_opt", NaiveTime::from_hms_opt(a as u32, b as u32, cc as u32)),
            23 => ot!("NaiveTime::from_hms_milli_opt", NaiveTime::from_hms_milli_opt(a as u32, b as u32, cc as u32, d as u32)),
            24 => ot!("NaiveTime::from_hms_micro_opt", NaiveTime::from_hms_micro_opt(a as u32, b as u32, cc as u32, d as u32)),
            25 => ot!("NaiveTime::from_hms_nano_opt", NaiveTime::from_hms_nano_opt(a as u32, b as u32, cc as u32, d as u32)),
            26 => ot!("NaiveTime::from_num_seconds_from_midnight_opt", NaiveTime::from_num_seconds_from_midnight_opt(a as u32, b as u32)),
            27 => { ot!("NaiveTime::with_hour", time.with_hour(a as u32)); ot!("NaiveTime::with_minute", time.with_minute(a as u32)); ot!("NaiveTime::with_second", time.with_second(a as u32)); ot!("NaiveTime::with_nanosecond", time.with_nanosecond(a as u32)); }
            28 => { let (t2, _) = call("NaiveTime::overflowing_add_signed", || time.overflowing_add_signed(td2))?; inv_time("overflowing_add_signed", &t2)?; let (t3, _) = call("NaiveTime::overflowing_sub_signed", || time.overflowing_sub_signed(td2))?; inv_time("overflowing_sub_signed", &t3)?; }
            29 => on!("NaiveDateTime::checked_add_signed", ndt.checked_add_signed(td2)),
            30 => on!("NaiveDateTime::checked_sub_signed", ndt.checked_sub_signed(td2)),
            31 => on!("NaiveDateTime::checked_add_months", ndt.checked_add_months(Months::new(a as u32))),
            32 => on!("NaiveDateTime::checked_sub_months", ndt.checked_sub_months(Months::new(a as u32))),
            33 => on!("NaiveDateTime::checked_add_days", ndt.checked_add_days(Days::new(a as u64))),
            34 => on!("NaiveDateTime::checked_sub_days", ndt.checked_sub_days(Days::new(a as u64))),
            35 => on!("NaiveDateTime::checked_add_offset", ndt.checked_add_offset(fo2)),
            36 => on!("NaiveDateTime::checked_sub_offset", ndt.checked_sub_offset(fo2)),
            37 => { on!("NaiveDateTime::with_year", ndt.with_year(a as i32)); on!("NaiveDateTime::with_month", ndt.with_month(a as u32)); on!("NaiveDateTime::with_month0", ndt.with_month0(a as u32)); }
            38 => { on!("NaiveDateTime::with_day", ndt.with_day(a as u32)); on!("NaiveDateTime::with_day0", ndt.with_day0(a as u32)); on!("NaiveDateTime::with_ordinal", ndt.with_ordinal(a as u32)); on!("NaiveDateTime::with_ordinal0", ndt.with_ordinal0(a as u32)); }
            39 => { on!("NaiveDateTime::with_hour", ndt.with_hour(a as u32)); on!("NaiveDateTime::with_minute", ndt.with_minute(a as u32)); on!("NaiveDateTime::with_second", ndt.with_second(a as u32)); on!("NaiveDateTime::with_nanosecond", ndt.with_nanosecond(a as u32)); }
            40 => { if let Some(x) = call("NaiveDateTime::and_local_timezone", || ndt.and_local_timezone(fo2).single())? { inv_dt("and_local_timezone", &x)?; } }
            41 => { let _ = call("NaiveDateTime timestamp_nanos_opt", || ndt.and_utc().timestamp_nanos_opt())?; }
            42 => { for r in [call("NaiveDateTime::duration_round", || ndt.duration_round(td2))?, call("NaiveDateTime::duration_trunc", || ndt.duration_trunc(td2))?, call("NaiveDateTime::duration_round_up", || ndt.duration_round_up(td2))?] { if let Ok(x) = r { inv_ndt("DurationRound", &x)?; } } }
            43 => oz!("DateTime::from_timestamp", DateTime::from_timestamp(a, b as u32)),
            44 => oz!("DateTime::from_timestamp_millis", DateTime::from_timestamp_millis(a)),
            45 => oz!("DateTime::from_timestamp_micros", DateTime::from_timestamp_micros(a)),
            46 => { let x = call("DateTime::from_timestamp_nanos", || DateTime::from_timestamp_nanos(a))?; inv_dt("from_timestamp_nanos", &x)?; }
            47 => oz!("DateTime::checked_add_signed", z.checked_add_signed(td2)),
            48 => oz!("DateTime::checked_sub_signed", z.checked_sub_signed(td2)),
            49 => oz!("DateTime::checked_add_months", z.checked_add_months(Months::new(a as u32))),
            50 => oz!("DateTime::checked_sub_months", z.checked_sub_months(Months::new(a as u32))),
            51 => oz!("DateTime::checked_add_days", z.checked_add_days(Days::new(a as u64))),
            52 => oz!("DateTime::checked_sub_days", z.checked_sub_days(Days::new(a as u64))),
            53 => { oz!("DateTime::with_year", z.with_year(a as i32)); oz!("DateTime::with_month", z.with_month(a as u32)); oz!("DateTime::with_month0", z.with_month0(a as u32)); }
            54 => { oz!("DateTime::with_day", z.with_day(a as u32)); oz!("DateTime::with_day0", z.with_day0(a as u32)); oz!("DateTime::with_ordinal", z.with_ordinal(a as u32)); oz!("DateTime::with_ordinal0", z.with_ordinal0(a as u32)); }
            55 => { oz!("DateTime::with_hour", z.with_hour(a as u32)); oz!("DateTime::with_minute", z.with_minute(a as u32)); oz!("DateTime::with_second", z.with_second(a as u32)); oz!("DateTime::with_nanosecond", z.with_nanosecond(a as u32)); }
            56 => { if let Some(x) = call("DateTime::with_time", || z.with_time(time).single())? { inv_dt("with_time", &x)?; } }
            57 => { let s = call("DateTime::to_rfc3339", || z.to_rfc3339())?; ensure!(!s.is_empty(), "to_rfc3339 empty"); }
            58 => { let f = [SecondsFormat::Secs, SecondsFormat::Millis, SecondsFormat::Micros, SecondsFormat::Nanos, SecondsFormat::AutoSi][(a.rem_euclid(5)) as usize]; let s = call("DateTime::to_rfc3339_opts", || z.to_rfc3339_opts(f, b % 2 == 0))?; ensure!(!s.is_empty(), "to_rfc3339_opts empty"); }
            59 => { for r in [call("DateTime::duration_round", || z.duration_round(td2))?, call("DateTime::duration_trunc", || z.duration_trunc(td2))?, call("DateTime::duration_round_up", || z.duration_round_up(td2))?] { if let Ok(x) = r { inv_dt("DurationRound", &x)?; } } }
            60 => { let _ = call("DateTime::timestamp_nanos_opt", || z.timestamp_nanos_opt())?; let _ = call("DateTime::years_since", || z.years_since(z.timezone().from_utc_datetime(&NaiveDateTime::MIN)))?; }
            61 => { let mut s = String::new(); let _ = call("write!(DateTime Display)", || write!(s, "{z} {z:?}"))?; let mut s2 = String::new(); let _ = call("write!(format %+ %c %s)", || write!(s2, "{}", z.format("%+ %c %s %Z %::z %C %G %U")))?; }
            62 => { let _ = call("serde_json::to_string(DateTime)", || serde_json::to_string(&z))?; let _ = call("bincode::serialize(DateTime)", || bincode::serialize(&z))?; }
            63 => { let _ = call("FixedOffset::east_opt", || FixedOffset::east_opt(a as i32))?; let _ = call("FixedOffset::west_opt", || FixedOffset::west_opt(a as i32))?; }
            64 => odur!("TimeDelta::new", TimeDelta::new(a, b as u32)),
            65 => { odur!("TimeDelta::try_weeks", TimeDelta::try_weeks(a)); odur!("TimeDelta::try_days", TimeDelta::try_days(a)); odur!("TimeDelta::try_hours", TimeDelta::try_hours(a)); }
            66 => { odur!("TimeDelta::try_minutes", TimeDelta::try_minutes(a)); odur!("TimeDelta::try_seconds", TimeDelta::try_seconds(a)); odur!("TimeDelta::try_milliseconds", TimeDelta::try_milliseconds(a)); }
            67 => { odur!("TimeDelta::checked_add", td.checked_add(&td2)); odur!("TimeDelta::checked_sub", td.checked_sub(&td2)); }
            68 => {
                odur!("TimeDelta::checked_mul", td2.checked_mul(a as i32));
                odur!("TimeDelta::checked_div", td2.checked_div(a as i32));
                // whole seconds * factor at the end of the 64-bit range, with a large sub-second part
                let k = if (a as i32).unsigned_abs() > 1000 { a as i32 } else { [1_000_000, -1_000_000, 4096, -65_536, 1_000_003][(a.rem_euclid(5)) as usize] };
                if let Some(x) = TimeDelta::new(i64::MAX / (k as i64).abs() + b.rem_euclid(5) - 2, 999_999_999 - (cc.rem_euclid(400_000_000)) as u32) {
                    obs.label("seconds_product_at_i64_limit");
                    odur!("TimeDelta::checked_mul", x.checked_mul(k));
                    odur!("TimeDelta::checked_mul", (-x).checked_mul(k));
                }
            }
            69 => { let x = call("TimeDelta::abs", || td2.abs())?; inv_td("abs", &x)?; let y = call("TimeDelta neg", || -td2)?; inv_td("neg", &y)?; let _ = call("TimeDelta::to_std", || td2.to_std())?; }
            70 => { if let Ok(x) = call("TimeDelta::from_std", || TimeDelta::from_std(std::time::Duration::new(a as u64, (b as u32) % 1_000_000_000)))? { inv_td("from_std", &x)?; } }
            71 => { let _ = call("Month::num_days", || MONTHS[(b.rem_euclid(12)) as usize].num_days(a as i32))?; let _ = call("Month::try_from", || Month::try_from(a as u8))?; let _ = call("Weekday::try_from", || Weekday::try_from(a as u8))?; }
            72 => { use num_traits::FromPrimitive; let _ = call("Month::from_i64", || Month::from_i64(a))?; let _ = call("Month::from_u64", || Month::from_u64(a as u64))?; let _ = call("Weekday::from_i64", || Weekday::from_i64(a))?; let _ = call("Weekday::from_u64", || Weekday::from_u64(a as u64))?; }
            73 => { if let Some(x) = call("TimeZone::with_ymd_and_hms", || fo2.with_ymd_and_hms(a as i32, b as u32, cc as u32, d as u32, (a % 61) as u32, (b % 61) as u32).single())? { inv_dt("with_ymd_and_hms", &x)?; } }
            74 => { if let Some(x) = call("TimeZone::timestamp_opt", || fo2.timestamp_opt(a, b as u32).single())? { inv_dt("timestamp_opt", &x)?; } }
            75 => { if let Some(x) = call("TimeZone::timestamp_millis_opt", || fo2.timestamp_millis_opt(a).single())? { inv_dt("timestamp_millis_opt", &x)?; } if let Some(x) = call("TimeZone::timestamp_micros", || fo2.timestamp_micros(a).single())? { inv_dt("timestamp_micros", &x)?; } }
            76 => { let x = call("TimeZone::timestamp_nanos", || fo2.timestamp_nanos(a))?; inv_dt("timestamp_nanos", &x)?; }
            77 => { if let Some(x) = call("TimeZone::from_local_datetime", || fo2.from_local_datetime(&ndt).single())? { inv_dt("from_local_datetime", &x)?; } }
            78 => { let x = call("round_subsecs", || if representable(shift(Ndt { day: c.day, secs: c.t.secs, frac: c.t.frac }, 2)) && c.day < cal::max_day() { Some(ndt.round_subsecs(a as u16)) } else { None })?; if let Some(x) = x { inv_ndt("round_subsecs", &x)?; } let y = call("trunc_subsecs", || ndt.trunc_subsecs(a as u16))?; inv_ndt("trunc_subsecs", &y)?; }
            79..=95 => {
                // Parsed: setters with extreme values, then every resolution method
                let mut p = Parsed::new();
                let vals = [a, b, cc, d];
                let k = (c.op - 79) as usize;
                for (j, v) in vals.iter().enumerate() {
                    let field = (k * 5 + j * 7 + (*v as usize & 3)) % 21;
                    let _ = call("Parsed::set_*", || match field {
                        0 => p.set_year(*v), 1 => p.set_year_div_100(*v), 2 => p.set_year_mod_100(*v), 3 => p.set_isoyear(*v), 4 => p.set_isoyear_div_100(*v), 5 => p.set_isoyear_mod_100(*v),
                        6 => p.set_quarter(*v), 7 => p.set_month(*v), 8 => p.set_week_from_sun(*v), 9 => p.set_week_from_mon(*v), 10 => p.set_isoweek(*v), 11 => p.set_weekday(WD[v.rem_euclid(7) as usize]),
                        12 => p.set_ordinal(*v), 13 => p.set_day(*v), 14 => p.set_ampm(*v % 2 == 0), 15 => p.set_hour12(*v), 16 => p.set_hour(*v), 17 => p.set_minute(*v), 18 => p.set_second(*v), 19 => p.set_timestamp(*v), _ => p.set_offset(*v),
                    })?;
                }
                if k % 2 == 0 { let _ = p.set_second(60); let _ = p.set_nanosecond(a.rem_euclid(1_000_000_000)); }
                if let Ok(x) = call("Parsed::to_naive_date", || p.to_naive_date())? { inv_date("to_naive_date", &x)?; }
                if let Ok(x) = call("Parsed::to_naive_time", || p.to_naive_time())? { inv_time("to_naive_time", &x)?; }
                if let Ok(x) = call("Parsed::to_naive_datetime_with_offset", || p.to_naive_datetime_with_offset(d as i32))? { inv_ndt("to_naive_datetime_with_offset", &x)?; }
                if let Ok(x) = call("Parsed::to_datetime", || p.to_datetime())? { inv_dt("to_datetime", &x)?; }
                if let Ok(x) = call("Parsed::to_datetime_with_timezone", || p.to_datetime_with_timezone(&fo2))? { inv_dt("to_datetime_with_timezone", &x)?; }
                if let Ok(x) = call("Parsed::to_datetime_with_timezone(Utc)", || p.to_datetime_with_timezone(&Utc))? { inv_dt("to_datetime_with_timezone", &x)?; }
                let _ = call("Parsed::to_fixed_offset", || p.to_fixed_offset())?;
            }
            96 => {
                // the deprecated NaiveDateTime constructors are fallible by value too
                #[allow(deprecated)]
                {
                    on!("NaiveDateTime::from_timestamp_opt", NaiveDateTime::from_timestamp_opt(a, b as u32));
                    on!("NaiveDateTime::from_timestamp_millis", NaiveDateTime::from_timestamp_millis(a));
                    on!("NaiveDateTime::from_timestamp_micros", NaiveDateTime::from_timestamp_micros(a));
                    on!("NaiveDateTime::from_timestamp_nanos", NaiveDateTime::from_timestamp_nanos(a));
                    // negative counts with every kind of sub-second remainder
                    let neg = -(a.unsigned_abs() as i128 % 4_000_000_000_000_000) as i64 - 1;
                    on!("NaiveDateTime::from_timestamp_millis", NaiveDateTime::from_timestamp_millis(neg));
                    on!("NaiveDateTime::from_timestamp_micros", NaiveDateTime::from_timestamp_micros(neg));
                    on!("NaiveDateTime::from_timestamp_nanos", NaiveDateTime::from_timestamp_nanos(neg));
                }
            }
            97 => {
                // rounding receivers at the two ends of the 64-bit nanosecond window, spans of every size
                let k = (b.unsigned_abs() % 200_000_000_000_000) as i64;
                let spans = [td2, TimeDelta::nanoseconds(a.checked_abs().unwrap_or(i64::MAX).max(1)), TimeDelta::nanoseconds(i64::MAX), TimeDelta::days(1), TimeDelta::hours(1), TimeDelta::nanoseconds(k.max(1))];
                for stamp in [i64::MIN + k, i64::MIN + (k % 4000), i64::MAX - k, i64::MAX - (k % 4000)] {
                    let w = DateTime::from_timestamp_nanos(stamp);
                    for sp in spans {
                        for r in [call("DateTime::duration_round", || w.duration_round(sp))?, call("DateTime::duration_trunc", || w.duration_trunc(sp))?, call("DateTime::duration_round_up", || w.duration_round_up(sp))?] { if let Ok(x) = r { inv_dt("DurationRound at the window end", &x)?; } }
                        let n = w.naive_utc();
                        for r in [call("NaiveDateTime::duration_round", || n.duration_round(sp))?, call("NaiveDateTime::duration_trunc", || n.duration_trunc(sp))?, call("NaiveDateTime::duration_round_up", || n.duration_round_up(sp))?] { if let Ok(x) = r { inv_ndt("DurationRound at the window end", &x)?; } }
                    }
                }
            }
            98 => {
                // occurrence counts over the whole u8 range
                let n = (a.wrapping_mul(0x9E37_79B9_7F4A_7C15u64 as i64) >> 56) as u8;
                od!("NaiveDate::from_weekday_of_month_opt", NaiveDate::from_weekday_of_month_opt(date.year(), date.month(), wd, n));
                od!("NaiveDate::from_weekday_of_month_opt", NaiveDate::from_weekday_of_month_opt(date.year(), date.month(), wd, (d as u8) | 32));
            }
            _ => {}
        }
        Ok(())
    }
}

// ------------------------------------------------------------------------------------------ text
pub struct Text;
/// run every parser on (input, format) and check returned values
pub fn parse_everything(s: &str, f: &str) -> Result<bool, String> {
    let mut any_ok = false;
    macro_rules! p { ($w:expr, $e:expr, $inv:expr) => {{ if let Ok(x) = call($w, || $e)? { any_ok = true; $inv($w, &x)?; } }}; }
    p!("NaiveDate::parse_from_str", NaiveDate::parse_from_str(s, f), inv_date);
    p!("NaiveTime::parse_from_str", NaiveTime::parse_from_str(s, f), inv_time);
    p!("NaiveDateTime::parse_from_str", NaiveDateTime::parse_from_str(s, f), inv_ndt);
    p!("DateTime::parse_from_str", DateTime::<FixedOffset>::parse_from_str(s, f), inv_dt);
    if let Ok((x, _)) = call("NaiveDate::parse_and_remainder", || NaiveDate::parse_and_remainder(s, f))? { inv_date("parse_and_remainder", &x)?; }
    if let Ok((x, _)) = call("NaiveTime::parse_and_remainder", || NaiveTime::parse_and_remainder(s, f))? { inv_time("parse_and_remainder", &x)?; }
    if let Ok((x, _)) = call("NaiveDateTime::parse_and_remainder", || NaiveDateTime::parse_and_remainder(s, f))? { inv_ndt("parse_and_remainder", &x)?; }
    if let Ok((x, _)) = call("DateTime::parse_and_remainder", || DateTime::<FixedOffset>::parse_and_remainder(s, f))? { inv_dt("parse_and_remainder", &x)?; }
    p!("NaiveDate::from_str", s.parse::<NaiveDate>(), inv_date);
    p!("NaiveTime::from_str", s.parse::<NaiveTime>(), inv_time);
    p!("NaiveDateTime::from_str", s.parse::<NaiveDateTime>(), inv_ndt);
    p!("DateTime<Utc>::from_str", s.parse::<DateTime<Utc>>(), inv_dt);
    p!("DateTime<FixedOffset>::from_str", s.parse::<DateTime<FixedOffset>>(), inv_dt);
    p!("DateTime<Local>::from_str", s.parse::<DateTime<Local>>(), inv_dt);
    p!("parse_from_rfc2822", DateTime::parse_from_rfc2822(s), inv_dt);
    p!("parse_from_rfc3339", DateTime::parse_from_rfc3339(s), inv_dt);
    let _ = call("FixedOffset::from_str", || s.parse::<FixedOffset>())?;
    let _ = call("Weekday::from_str", || s.parse::<Weekday>())?;
    let _ = call("Month::from_str", || s.parse::<Month>())?;
    // item-level API, strict and lenient
    for lenient in [false, true] {
        let items: Vec<Item> = call("StrftimeItems collect", || {
            let it = if lenient { StrftimeItems::new_lenient(f) } else { StrftimeItems::new(f) };
            it.take(f.len() + 9).collect()
        })?;
        let mut parsed = Parsed::new();
        let _ = call("format::parse", || chrono::format::parse(&mut parsed, s, items.iter()))?;
        if let Ok(x) = call("Parsed::to_datetime", || parsed.to_datetime())? { inv_dt("to_datetime after parse", &x)?; }
        let mut parsed = Parsed::new();
        let _ = call("format::parse_and_remainder", || chrono::format::parse_and_remainder(&mut parsed, s, items.iter()))?;
        // the same items in their owned form (what parse_to_owned hands out)
        let owned: Vec<Item<'static>> = items.iter().cloned().map(Item::to_owned).collect();
        let mut parsed = Parsed::new();
        let _ = call("format::parse (owned items)", || chrono::format::parse(&mut parsed, s, owned.iter()))?;
        let mut parsed = Parsed::new();
        let _ = call("format::parse_and_remainder (owned items)", || chrono::format::parse_and_remainder(&mut parsed, s, owned.iter()))?;
    }
    Ok(any_ok)
}
impl SubCheck for Text {
    type Case = (String, String);
    fn name(&self) -> &'static str {
        "text_inputs"
    }
    fn rule(&self) -> &'static str {
        "case = (input text, format string), both arbitrary Unicode / near-valid / truncated; every parser (parse_from_str and parse_and_remainder of the four types, FromStr of nine types, RFC 2822/3339 readers, format::parse with strict and lenient items) returns normally and Ok values satisfy their invariants; non-trivial = a multi-byte character or a truncated/unknown specifier is present, or some parser accepted the input"
    }
    fn strategy(&self) -> Option<BoxedStrategy<Self::Case>> {
        let near_input = prop_oneof![
            2 => ".{0,30}",
            2 => "[0-9+\\-:T Z.]{0,30}",
            2 => "[0-9]{1,6}-[0-9]{1,3}-[0-9]{1,3}[T ][0-9]{1,3}:[0-9]{1,3}:[0-9]{1,3}(\\.[0-9]{0,12})?(Z|[+\\-−][0-9]{1,4}:?[0-9]{0,2})?",
            1 => "(Mon|tue|WED|Thursday|fri|Sáb|Sun), [0-9]{1,2} (Jan|feb|MAR|Abc|Dec) [0-9]{2,5} [0-9]{2}:[0-9]{2}(:[0-9]{2})? ([+-][0-9]{4}|GMT|EST|Z|\\(x\\))",
            1 => "[\\p{L}\\p{N} ]{0,12}",
            1 => (crate::props::c12::format_string(), crate::props::c12::value()).prop_map(|(f, v)| crate::props::c12::chrono_format(&f, &v).ok().and_then(|r| r.ok()).unwrap_or_default()),
        ];
        // long runs of one character (counters, recursion depth, digit accumulation) inside otherwise plausible text
        let runs = (
            proptest::sample::select(vec!["Tue, 1 Jul 2003 10:52:37 +0200 ", "2003-07-01T10:52:37", "2003-07-01T10:52:37.", "1 Jul ", "", "12:30:", "+", "Mon"]),
            proptest::sample::select(vec!["(", ")", "()", "(\\", "0", "9", " ", "\t", ".", ":", "-", "+", "é", "\u{3000}", "a"]),
            proptest::sample::select(vec![64usize, 255, 256, 257, 1024, 65_537]),
            proptest::sample::select(vec!["", ")", "Z", " +0000", "x"]),
            any::<bool>(),
        )
            .prop_map(|(pre, unit, n, post, close)| {
                let mut t = format!("{pre}{}", unit.repeat(n));
                if close && unit == "(" { t.push_str(&")".repeat(n)); }
                t.push_str(post);
                t
            });
        // a valid text cut somewhere, continued by a few characters of keywords ("UTC", "Z", "GMT", signs)
        // and then a multi-byte character: where a reader peeks a fixed number of bytes ahead
        let cut = (crate::props::c12::value(), 0u8..4, any::<u16>(), "[UuTtCcZzGgMm+\\-:. 0-9]{0,3}", proptest::sample::select(vec!['€', 'é', 'ø', '🤠', '\u{6af}', '日', '\u{2212}', '\u{a0}']), "[ -~]{0,3}")
            .prop_map(|(v, form, at, kw, mb, tail)| {
                let f = ["%Y-%m-%dT%H:%M:%S%.f%:z", "%a, %d %b %Y %H:%M:%S %z", "%Y-%m-%d %H:%M:%S UTC", "%+"][form as usize];
                let s = crate::props::c12::chrono_format(f, &crate::props::c12::V { kind: 3, day: v.day.clamp(cal::min_day() + 2, cal::max_day() - 2), ..v }).ok().and_then(|r| r.ok()).unwrap_or_else(|| "2015-02-18T23:16:09Z".to_string());
                let cs: Vec<char> = s.chars().collect();
                let p = if at % 3 == 0 { cs.len() } else { at as usize % (cs.len() + 1) };
                format!("{}{kw}{mb}{tail}", cs[..p].iter().collect::<String>())
            });
        let near_input = prop_oneof![12 => near_input, 1 => runs, 2 => cut];
        let pair = (crate::props::c12::format_string(), crate::props::c12::value(), any::<u16>(), any::<char>()).prop_map(|(f, v, pos, ch)| {
            // a formatted value, damaged by one edit, together with its format
            let s = crate::props::c12::chrono_format(&f, &v).ok().and_then(|r| r.ok()).unwrap_or_default();
            let mut cs: Vec<char> = s.chars().collect();
            if !cs.is_empty() { let p = pos as usize % cs.len(); match pos % 3 { 0 => { cs.remove(p); } 1 => { cs[p] = ch; } _ => { cs.insert(p, ch); } } }
            (cs.into_iter().collect::<String>(), f)
        });
        Some(prop_oneof![3 => (near_input, crate::props::c12::format_string()), 2 => pair, 1 => (".{0,20}", ".{0,12}")].boxed())
    }
    fn check(&self, (s, f): &Self::Case, obs: &mut Obs) -> Result<(), String> {
        obs.nt_if(!s.is_ascii() || !f.is_ascii(), "multi_byte");
        obs.nt_if(f.ends_with('%') || f.contains("%.") || f.contains("%:") || f.contains("%#"), "truncated_or_odd_specifier");
        let ok = parse_everything(s, f)?;
        obs.nt_if(ok, "some_parser_accepted");
        Ok(())
    }
}

// ----------------------------------------------------------------------------- item-stream bound
pub struct Items;
impl SubCheck for Items {
    type Case = String;
    fn name(&self) -> &'static str {
        "format_item_stream"
    }
    fn rule(&self) -> &'static str {
        "case = an arbitrary format string; StrftimeItems::new / new_lenient yield at most one item per input byte plus a constant (len + 8; composite specifiers expand to at most 13 items per 2 bytes, so the bound used is 13 x len + 8), deterministically - a longer stream is a violation without any timer; parse() / parse_to_owned() return; non-trivial = the string contains an invalid or truncated specifier"
    }
    fn strategy(&self) -> Option<BoxedStrategy<String>> {
        Some(prop_oneof![4 => crate::props::c12::format_string(), 2 => "[%a-zA-Z0-9.:#_\\- é]{0,16}", 1 => ".{0,16}", 1 => Just("%".to_string()), 1 => "%[\\-_0#]?"].boxed())
    }
    fn check(&self, f: &String, obs: &mut Obs) -> Result<(), String> {
        let bound = 13 * f.len() + 8;
        let invalid = crate::refmodel::strftime::tokenize(f).is_err();
        obs.nt_if(invalid, "invalid_specifier");
        for lenient in [false, true] {
            let n = call("StrftimeItems iteration", || {
                let it = if lenient { StrftimeItems::new_lenient(f) } else { StrftimeItems::new(f) };
                it.take(bound + 1).count()
            })?;
            ensure!(n <= bound, "StrftimeItems::{}({f:?}) yields more than {bound} items: the iterator does not terminate", if lenient { "new_lenient" } else { "new" });
            if !lenient && invalid {
                let has_err = StrftimeItems::new(f).take(bound + 1).any(|i| i == Item::Error);
                ensure!(has_err, "StrftimeItems::new({f:?}) reports no Item::Error for an invalid format string");
            }
        }
        if n_items_bounded(f, bound) {
            let r = call("StrftimeItems::parse", || StrftimeItems::new(f).parse().map(|v| v.len()))?;
            ensure!(r.is_ok() == !invalid, "StrftimeItems::parse({f:?}) = {r:?}, reference tokenizer says invalid = {invalid}");
            let _ = call("StrftimeItems::parse_to_owned", || StrftimeItems::new(f).parse_to_owned().map(|v| v.len()))?;
        }
        Ok(())
    }
}
fn n_items_bounded(f: &str, bound: usize) -> bool {
    StrftimeItems::new(f).take(bound + 1).count() <= bound
}

pub fn subs() -> Vec<Box<dyn DynSub>> {
    vec![Box::new(Sweep), Box::new(Text), Box::new(Items)]
}

pub fn run(ctx: &Ctx) {
    ctx.assume("the panic monitor of every other property's driver (harness/src/guard.rs) also serves this property: any panic inside a fallible chrono call fails that property's check with a PANIC message");
    ctx.assume("hangs other than the format-item stream bound are only observable through the driver's watchdog (exit 2, inconclusive)");
    ctx.run_prop(&Items, ctx.n(400_000, 20_000_000));
    if ctx.failed() { return; }
    ctx.run_prop(&Sweep, ctx.n(6_000_000, 200_000_000));
    ctx.run_prop(&Text, ctx.n(800_000, 40_000_000));
}
