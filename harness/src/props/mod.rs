use crate::engine::{Ctx, DynSub};

pub struct Property {
    pub id: &'static str,
    pub run: fn(&Ctx),
    pub subs: fn() -> Vec<Box<dyn DynSub>>,
}

macro_rules! props {
    ($($m:ident => $id:literal),* $(,)?) => {
        $(pub mod $m;)*
        pub fn registry() -> Vec<Property> {
            vec![$(Property { id: $id, run: $m::run, subs: $m::subs }),*]
        }
    };
}

props! {
    c01 => "C01",
    c02 => "C02",
    c03 => "C03",
    c04 => "C04",
    c06 => "C06",
    c07 => "C07",
    c08 => "C08",
    c09 => "C09",
    c10 => "C10",
    c11 => "C11",
    c12 => "C12",
    c13 => "C13",
    c14 => "C14",
    c17 => "C17",
    c19 => "C19",
    c20 => "C20",
}

/// property-specific child-process sub-commands
pub fn helper(_cmd: &str, _args: &[String]) -> Option<i32> {
    None
}
