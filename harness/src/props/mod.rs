use crate::engine::{Ctx, DynSub};

pub struct Property {
    pub id: &'static str,
    pub run: fn(&Ctx),
    pub subs: fn() -> Vec<Box<dyn DynSub>>,
}

macro_rules! props {
    ($($m:ident => $id:literal),* $(,)?) => {
        $(pub mod $m;)*
        pub fn registry() -> Vec<Property> {
            vec![$(Property { id: $id, run: $m::run, subs: $m::subs }),*]
        }
    };
}

props! {
    c01 => "C01",
    c02 => "C02",
    c03 => "C03",
    c04 => "C04",
    c05 => "C05",
    c06 => "C06",
    c07 => "C07",
    c08 => "C08",
    c09 => "C09",
    c10 => "C10",
    c11 => "C11",
    c12 => "C12",
    c13 => "C13",
    c14 => "C14",
    c15 => "C15",
    c16 => "C16",
    c17 => "C17",
    c18 => "C18",
    c19 => "C19",
    c20 => "C20",
}

/// property-specific child-process sub-commands
pub fn helper(cmd: &str, args: &[String]) -> Option<i32> {
    match cmd {
        "c18-child" => Some(c18::child(args.first().map(|s| s.as_str()).unwrap_or("[]"))),
        "c05-child" => Some(c05::child(args.first().map(|s| s.as_str()).unwrap_or("{}"))),
        // write the seed corpus of a fuzz target into a directory
        "fuzz-seeds" => {
            let dir = std::path::Path::new(&args[1]);
            std::fs::create_dir_all(dir).ok()?;
            for (i, s) in crate::fuzzing::seeds(&args[0]).iter().enumerate() {
                std::fs::write(dir.join(format!("seed-{i:04}")), s).ok()?;
            }
            Some(0)
        }
        // turn a libFuzzer artifact into a replay file for the matching sub-check
        "fuzz-decode" => {
            let data = std::fs::read(&args[1]).ok()?;
            let (p, sub, case) = crate::fuzzing::decode(&args[0], &data)?;
            println!("{}", serde_json::json!({"property": p, "subcheck": sub, "case": case, "message": format!("libFuzzer artifact {}", args[1])}));
            Some(0)
        }
        // development aid: print the reference model's view of a TZif file (validated against CPython's zoneinfo)
        "zone-model-dump" => {
            let bytes = std::fs::read(&args[0]).ok()?;
            let m = crate::refmodel::zone::read_tzif(&bytes)?;
            let mut pts: Vec<i64> = m.transitions.iter().map(|t| t.0).filter(|t| *t > -5_000_000_000).collect();
            for y in [1995i64, 2024, 2037, 2040, 2100] {
                pts.extend(m.change_points_near(crate::refmodel::cal::days_from_civil(y, 6, 1) * 86_400).into_iter().filter(|t| *t > m.transitions.last().map(|l| l.0).unwrap_or(i64::MIN)));
            }
            for t in pts {
                for u in [t - 1, t, t + 1] {
                    println!("{u} {} {:?}", m.offset_at(u), m.preimage(u + m.offset_at(u) as i64));
                }
            }
            Some(0)
        }
        _ => None,
    }
}
