use crate::engine::{Ctx, DynSub};

pub mod c01;

pub struct Property {
    pub id: &'static str,
    pub run: fn(&Ctx),
    pub subs: fn() -> Vec<Box<dyn DynSub>>,
}

pub fn registry() -> Vec<Property> {
    vec![
        Property { id: "C01", run: c01::run, subs: c01::subs },
    ]
}

/// property-specific child-process sub-commands
pub fn helper(_cmd: &str, _args: &[String]) -> Option<i32> {
    None
}
