use crate::engine::{Ctx, DynSub};

pub mod c01;
pub mod c06;
pub mod c19;

pub struct Property {
    pub id: &'static str,
    pub run: fn(&Ctx),
    pub subs: fn() -> Vec<Box<dyn DynSub>>,
}

pub fn registry() -> Vec<Property> {
    vec![
        Property { id: "C01", run: c01::run, subs: c01::subs },
        Property { id: "C06", run: c06::run, subs: c06::subs },
        Property { id: "C19", run: c19::run, subs: c19::subs },
    ]
}

/// property-specific child-process sub-commands
pub fn helper(_cmd: &str, _args: &[String]) -> Option<i32> {
    None
}
