//! C02 Unix timestamps and UTC date-times correspond one-to-one.
use crate::engine::{Ctx, DynSub, Obs, SubCheck};
use crate::gen;
use crate::guard::call;
use crate::refmodel::inst::{self, Ndt, DAY_NS, NS};
use crate::refmodel::cal;
use crate::{conv, ensure, ensure_eq};
use chrono::{DateTime, Datelike, FixedOffset, MappedLocalTime, TimeZone, Timelike, Utc};
use proptest::prelude::*;
use std::time::{Duration, SystemTime, UNIX_EPOCH};

fn min_secs() -> i64 { (inst::min_inst() / NS) as i64 }
fn max_secs() -> i64 { (inst::max_inst() / NS) as i64 }

/// fields of a DateTime<Utc> equal the model (leap: frac >= 1e9 on the same second)
pub fn check_utc_fields<Tz: TimeZone>(what: &str, dt: &DateTime<Tz>, m: Ndt) -> Result<(), String> {
    let n = dt.naive_utc();
    let (y, mo, d) = cal::civil_from_days(m.day);
    ensure_eq!((n.year() as i64, n.month(), n.day()), (y, mo, d), "{what}: UTC date");
    ensure_eq!((n.hour(), n.minute(), n.second()), (m.secs / 3600, m.secs / 60 % 60, m.secs % 60), "{what}: UTC clock");
    ensure_eq!(n.nanosecond(), m.frac, "{what}: nanosecond field");
    ensure_eq!(n.ordinal(), cal::ordinal(m.day), "{what}: ordinal");
    ensure_eq!(n.weekday().num_days_from_monday(), cal::weekday(m.day), "{what}: weekday");
    Ok(())
}

fn classify(t: i128, unit: i128, obs: &mut Obs) {
    obs.nt_if(t < 0 && t.rem_euclid(NS) != 0, "negative_with_subsecond");
    let unit = unit.max(NS);
    obs.nt_if((t - inst::min_inst()).abs() <= 2 * unit || (t - inst::max_inst()).abs() <= 2 * unit, "range_end");
    obs.nt_if((t - i64::MAX as i128).abs() <= 2 * unit.max(NS) || (t - i64::MIN as i128).abs() <= 2 * unit.max(NS), "ns_window_end");
    let sod = t.rem_euclid(DAY_NS) / NS;
    obs.nt_if(sod == 0 || sod == 86_399, "day_boundary_second");
}

fn single<T>(r: MappedLocalTime<T>) -> Option<T> {
    match r {
        MappedLocalTime::Single(t) => Some(t),
        _ => None,
    }
}

// ---------------------------------------------------------------------------------------------
pub struct FromSecs;
impl SubCheck for FromSecs {
    type Case = (i64, u32, i32);
    fn name(&self) -> &'static str {
        "from_secs"
    }
    fn rule(&self) -> &'static str {
        "case = (seconds, nanosecond field, offset for the zone-generic wrapper); non-trivial = negative count that is not a whole unit, within 2 units of a range end or of the i64-nanosecond window, second-of-day 0 or 86399, or a nanosecond field >= 1e9"
    }
    fn strategy(&self) -> Option<BoxedStrategy<Self::Case>> {
        let secs = gen::i64_edges(vec![0, 86_400, -86_400, min_secs(), max_secs(), i64::MAX / 1_000_000_000, i64::MIN / 1_000_000_000, 59, -1]);
        let secs = prop_oneof![3 => secs, 2 => min_secs()..=max_secs(), 1 => (min_secs() / 60..max_secs() / 60).prop_map(|m| m * 60 + 59)];
        let ns = prop_oneof![
            3 => 0u32..1_000_000_000,
            3 => proptest::sample::select(vec![0u32, 1, 999_999_999, 1_000_000_000, 1_000_000_001, 1_999_999_999, 2_000_000_000, 2_000_000_001, u32::MAX]),
            1 => 1_000_000_000u32..2_000_000_000,
            1 => any::<u32>(),
        ];
        Some((secs, ns, gen::offset_secs()).boxed())
    }
    fn check(&self, &(s, ns, off): &Self::Case, obs: &mut Obs) -> Result<(), String> {
        let t = s as i128 * NS; // instant of the whole second
        let in_range = inst::in_range(t);
        let leap_ok = ns < 2_000_000_000 && s.rem_euclid(60) == 59;
        let valid = in_range && (ns < 1_000_000_000 || leap_ok);
        classify(t + (ns as i128).min(NS - 1), NS, obs);
        obs.nt_if(ns >= 1_000_000_000, "leap_or_invalid_nsec");
        let got = call("DateTime::from_timestamp", || DateTime::from_timestamp(s, ns))?;
        let z = call("Utc.timestamp_opt", || Utc.timestamp_opt(s, ns))?;
        let fo = FixedOffset::east_opt(off).ok_or("harness: offset")?;
        let f = call("FixedOffset.timestamp_opt", || fo.timestamp_opt(s, ns))?;
        // the panicking spellings of the zone-generic constructor (refused inputs sampled: a panic is slow)
        if got.is_some() || (s as u64 ^ ns as u64).wrapping_mul(0x9e37_79b9_7f4a_7c15) >> 58 == 0 {
            #[allow(deprecated)]
            let pan = crate::guard::guard(|| Utc.timestamp(s, ns));
            ensure_eq!(pan.ok(), got, "Utc.timestamp({s}, {ns}) vs from_timestamp (panic <-> None)");
        }
        #[allow(deprecated)]
        let nv = call("NaiveDateTime::from_timestamp_opt", || chrono::NaiveDateTime::from_timestamp_opt(s, ns))?;
        ensure_eq!(nv, got.map(|d| d.naive_utc()), "NaiveDateTime::from_timestamp_opt({s}, {ns}) vs DateTime::from_timestamp");
        obs.label(if valid { "accepted" } else { "refused" });
        match got {
            None => {
                ensure!(!valid, "from_timestamp({s}, {ns}) refused a valid, representable timestamp");
                ensure!(matches!(z, MappedLocalTime::None), "Utc.timestamp_opt({s}, {ns}) disagrees with from_timestamp (None)");
                ensure!(matches!(f, MappedLocalTime::None), "FixedOffset.timestamp_opt({s}, {ns}) disagrees with from_timestamp (None)");
            }
            Some(dt) => {
                ensure!(valid, "from_timestamp({s}, {ns}) accepted an out-of-range instant or an invalid nanosecond field");
                let m = Ndt { frac: ns, ..inst::split(t) };
                check_utc_fields("from_timestamp", &dt, m)?;
                ensure_eq!(dt.timestamp(), s, "timestamp() read-back");
                ensure_eq!(dt.timestamp_subsec_nanos(), ns, "timestamp_subsec_nanos read-back");
                ensure_eq!(dt.timestamp_subsec_micros(), ns / 1000, "timestamp_subsec_micros");
                ensure_eq!(dt.timestamp_subsec_millis(), ns / 1_000_000, "timestamp_subsec_millis");
                ensure_eq!(single(z), Some(dt), "Utc.timestamp_opt({s}, {ns})");
                let fdt = single(f).ok_or_else(|| format!("FixedOffset.timestamp_opt({s}, {ns}) not Single"))?;
                ensure_eq!(fdt.naive_utc(), dt.naive_utc(), "FixedOffset({off}).timestamp_opt instant");
                ensure_eq!(fdt.offset().local_minus_utc(), off, "FixedOffset.timestamp_opt offset");
                // the count read back through the formatting route (%s), whatever the offset of the value
                {
                    use std::fmt::Write;
                    let (mut a, mut b) = (String::new(), String::new());
                    let ra = call("DateTime<Utc>::format(%s)", || write!(a, "{}", dt.format("%s")))?;
                    let rb = call("DateTime<FixedOffset>::format(%s)", || write!(b, "{}", fdt.format("%s")))?;
                    ensure!(ra.is_ok() && a == s.to_string(), "from_timestamp({s}, {ns}).format(\"%s\") = {a:?}");
                    ensure!(rb.is_ok() && b == s.to_string(), "FixedOffset({off}).timestamp_opt({s}, {ns}).format(\"%s\") = {b:?}");
                }
                if ns < 1_000_000_000 {
                    let full = t + ns as i128;
                    ensure_eq!(dt.timestamp_millis() as i128, full.div_euclid(1_000_000), "timestamp_millis of ({s}, {ns})");
                    ensure_eq!(dt.timestamp_micros() as i128, full.div_euclid(1000), "timestamp_micros of ({s}, {ns})");
                    ensure_eq!(dt.timestamp_nanos_opt(), i64::try_from(full).ok(), "timestamp_nanos_opt of ({s}, {ns})");
                }
            }
        }
        Ok(())
    }
}

// ---------------------------------------------------------------------------------------------
pub struct FromUnit;
impl SubCheck for FromUnit {
    type Case = (u8, i64, i32);
    fn name(&self) -> &'static str {
        "from_unit"
    }
    fn rule(&self) -> &'static str {
        "case = (unit 0 ms | 1 us | 2 ns, i64 count, offset); non-trivial as for from_secs (negative non-multiples of a second, range ends in that unit, i64 extremes)"
    }
    fn strategy(&self) -> Option<BoxedStrategy<Self::Case>> {
        Some(
            (0u8..3)
                .prop_flat_map(|u| {
                    let unit: i128 = [1_000_000, 1000, 1][u as usize];
                    let lo = (inst::min_inst().div_euclid(unit)).clamp(i64::MIN as i128, i64::MAX as i128) as i64;
                    let hi = (inst::max_inst().div_euclid(unit)).clamp(i64::MIN as i128, i64::MAX as i128) as i64;
                    let per_sec = (NS / unit) as i64;
                    (Just(u), prop_oneof![
                        4 => gen::i64_edges(vec![0, lo, hi, per_sec, -per_sec, 86_400 * per_sec, -86_400 * per_sec]),
                        2 => lo..=hi,
                        1 => -5_000_000_000i64..5_000_000_000,
                    ], gen::offset_secs())
                })
                .boxed(),
        )
    }
    fn check(&self, &(u, v, off): &Self::Case, obs: &mut Obs) -> Result<(), String> {
        let unit: i128 = [1_000_000, 1000, 1][u as usize];
        let name = ["millis", "micros", "nanos"][u as usize];
        let t = v as i128 * unit;
        let valid = inst::in_range(t);
        classify(t, unit, obs);
        obs.nt_if(v == i64::MIN || v == i64::MAX, "i64_extreme");
        let fo = FixedOffset::east_opt(off).ok_or("harness: offset")?;
        let (got, z, f): (Option<DateTime<Utc>>, Option<DateTime<Utc>>, Option<DateTime<FixedOffset>>) = match u {
            0 => (
                call("from_timestamp_millis", || DateTime::from_timestamp_millis(v))?,
                single(call("Utc.timestamp_millis_opt", || Utc.timestamp_millis_opt(v))?),
                single(call("FixedOffset.timestamp_millis_opt", || fo.timestamp_millis_opt(v))?),
            ),
            1 => (
                call("from_timestamp_micros", || DateTime::from_timestamp_micros(v))?,
                single(call("Utc.timestamp_micros", || Utc.timestamp_micros(v))?),
                single(call("FixedOffset.timestamp_micros", || fo.timestamp_micros(v))?),
            ),
            _ => (
                Some(call("from_timestamp_nanos", || DateTime::from_timestamp_nanos(v))?),
                Some(call("Utc.timestamp_nanos", || Utc.timestamp_nanos(v))?),
                Some(call("FixedOffset.timestamp_nanos", || fo.timestamp_nanos(v))?),
            ),
        };
        if u == 0 && (got.is_some() || (v as u64).wrapping_mul(0x9e37_79b9_7f4a_7c15) >> 58 == 0) {
            #[allow(deprecated)]
            let pan = crate::guard::guard(|| Utc.timestamp_millis(v));
            ensure_eq!(pan.ok(), got, "Utc.timestamp_millis({v}) vs from_timestamp_millis (panic <-> None)");
            #[allow(deprecated)]
            let panf = crate::guard::guard(|| fo.timestamp_millis(v));
            ensure_eq!(panf.ok().map(|d| d.naive_utc()), got.map(|d| d.naive_utc()), "FixedOffset.timestamp_millis({v}) vs from_timestamp_millis (panic <-> None)");
        }
        #[allow(deprecated)]
        let nv = call("NaiveDateTime::from_timestamp_<unit>", || match u {
            0 => chrono::NaiveDateTime::from_timestamp_millis(v),
            1 => chrono::NaiveDateTime::from_timestamp_micros(v),
            _ => chrono::NaiveDateTime::from_timestamp_nanos(v),
        })?;
        ensure_eq!(nv, got.map(|d| d.naive_utc()), "NaiveDateTime::from_timestamp_{name}({v}) vs DateTime::from_timestamp_{name}");
        obs.label(if valid { "accepted" } else { "refused" });
        match got {
            None => {
                ensure!(!valid, "from_timestamp_{name}({v}) refused a representable instant");
                ensure!(z.is_none() && f.is_none(), "zone-generic {name} wrapper disagrees with from_timestamp_{name}({v}) = None");
            }
            Some(dt) => {
                ensure!(valid, "from_timestamp_{name}({v}) accepted an instant outside the representable range");
                check_utc_fields(name, &dt, inst::split(t))?;
                let back = match u {
                    0 => Some(dt.timestamp_millis()),
                    1 => Some(dt.timestamp_micros()),
                    _ => dt.timestamp_nanos_opt(),
                };
                ensure_eq!(back, Some(v), "timestamp_{name} read-back of {v}");
                ensure_eq!(dt.timestamp() as i128, t.div_euclid(NS), "timestamp() of {name} {v}");
                ensure_eq!(dt.timestamp_subsec_nanos() as i128, t.rem_euclid(NS), "subsec nanos of {name} {v}");
                ensure_eq!(dt.timestamp_nanos_opt(), i64::try_from(t).ok(), "timestamp_nanos_opt of {name} {v}");
                ensure_eq!(z, Some(dt), "Utc wrapper for {name} {v}");
                let fdt = f.ok_or_else(|| format!("FixedOffset wrapper for {name} {v} failed"))?;
                ensure_eq!(fdt.naive_utc(), dt.naive_utc(), "FixedOffset wrapper instant for {name} {v}");
                ensure_eq!(fdt.offset().local_minus_utc(), off, "FixedOffset wrapper offset");
            }
        }
        Ok(())
    }
}

// ---------------------------------------------------------------------------------------------
pub struct Reverse;
impl SubCheck for Reverse {
    type Case = Ndt;
    fn name(&self) -> &'static str {
        "reverse"
    }
    fn rule(&self) -> &'static str {
        "case = a representable non-leap UTC date-time built from calendar fields; every timestamp accessor must read floor(instant/unit), constructors must return the value, SystemTime round trip is the identity; non-trivial as for from_secs"
    }
    fn strategy(&self) -> Option<BoxedStrategy<Ndt>> {
        let w = |x: i128| inst::split(x);
        Some(
            prop_oneof![
                4 => gen::ndt(),
                2 => (proptest::sample::select(vec![i64::MAX as i128, i64::MIN as i128, 0i128]), -3_000_000_000i128..3_000_000_000).prop_map(move |(a, d)| w(a + d)),
                2 => (-90_000_000_000_000i128..90_000_000_000_000).prop_map(move |d| w(d)),
                1 => (0i128..3_000_000_000).prop_map(move |d| w(inst::min_inst() + d)),
                1 => (0i128..3_000_000_000).prop_map(move |d| w(inst::max_inst() - d)),
            ]
            .boxed(),
        )
    }
    fn check(&self, m: &Ndt, obs: &mut Obs) -> Result<(), String> {
        let t = inst::join(*m);
        classify(t, 1, obs);
        obs.label_if(i64::try_from(t).is_err(), "outside_ns_window");
        let n = conv::ndt(*m);
        let dt = Utc.from_utc_datetime(&n);
        ensure_eq!(dt.timestamp() as i128, t.div_euclid(NS), "timestamp()");
        ensure_eq!(dt.timestamp_millis() as i128, t.div_euclid(1_000_000), "timestamp_millis()");
        ensure_eq!(dt.timestamp_micros() as i128, t.div_euclid(1000), "timestamp_micros()");
        ensure_eq!(dt.timestamp_nanos_opt(), i64::try_from(t).ok(), "timestamp_nanos_opt()");
        ensure_eq!(dt.timestamp_subsec_nanos() as i128, t.rem_euclid(NS), "timestamp_subsec_nanos()");
        ensure_eq!(dt.timestamp_subsec_micros() as i128, t.rem_euclid(NS) / 1000, "timestamp_subsec_micros()");
        ensure_eq!(dt.timestamp_subsec_millis() as i128, t.rem_euclid(NS) / 1_000_000, "timestamp_subsec_millis()");
        let a = n.and_utc();
        ensure_eq!(a, dt, "NaiveDateTime::and_utc");
        #[allow(deprecated)]
        {
            ensure_eq!(n.timestamp() as i128, t.div_euclid(NS), "NaiveDateTime::timestamp()");
            ensure_eq!(n.timestamp_millis() as i128, t.div_euclid(1_000_000), "NaiveDateTime::timestamp_millis()");
            ensure_eq!(n.timestamp_micros() as i128, t.div_euclid(1000), "NaiveDateTime::timestamp_micros()");
            ensure_eq!(n.timestamp_nanos_opt(), i64::try_from(t).ok(), "NaiveDateTime::timestamp_nanos_opt()");
            ensure_eq!(n.timestamp_subsec_nanos() as i128, t.rem_euclid(NS), "NaiveDateTime::timestamp_subsec_nanos()");
            ensure_eq!(n.timestamp_subsec_micros() as i128, t.rem_euclid(NS) / 1000, "NaiveDateTime::timestamp_subsec_micros()");
            ensure_eq!(n.timestamp_subsec_millis() as i128, t.rem_euclid(NS) / 1_000_000, "NaiveDateTime::timestamp_subsec_millis()");
        }
        ensure_eq!(a.timestamp(), dt.timestamp(), "and_utc().timestamp()");
        let back = call("from_timestamp", || DateTime::from_timestamp(dt.timestamp(), dt.timestamp_subsec_nanos()))?;
        ensure_eq!(back, Some(dt), "from_timestamp(timestamp(), subsec_nanos())");
        if let Some(nn) = dt.timestamp_nanos_opt() {
            ensure_eq!(DateTime::from_timestamp_nanos(nn), dt, "from_timestamp_nanos(timestamp_nanos)");
        }
        if t.rem_euclid(1000) == 0 {
            ensure_eq!(DateTime::from_timestamp_micros(dt.timestamp_micros()), Some(dt), "from_timestamp_micros(timestamp_micros)");
        }
        if t.rem_euclid(1_000_000) == 0 {
            ensure_eq!(DateTime::from_timestamp_millis(dt.timestamp_millis()), Some(dt), "from_timestamp_millis(timestamp_millis)");
        }
        ensure_eq!(DateTime::<Utc>::UNIX_EPOCH.timestamp_nanos_opt(), Some(0), "UNIX_EPOCH");
        // system clock type: build independently from the model instant
        let secs = t.div_euclid(NS);
        let sub = t.rem_euclid(NS) as u32;
        let st = if secs >= 0 {
            UNIX_EPOCH.checked_add(Duration::new(secs as u64, sub))
        } else {
            UNIX_EPOCH.checked_sub(Duration::new((-secs) as u64, 0)).and_then(|x| x.checked_add(Duration::new(0, sub)))
        };
        if let Some(st) = st {
            let from: DateTime<Utc> = call("From<SystemTime>", || DateTime::<Utc>::from(st))?;
            ensure_eq!(from, dt, "DateTime::<Utc>::from(SystemTime) for instant {t}");
            let to: SystemTime = call("SystemTime::from", || SystemTime::from(dt))?;
            ensure_eq!(to, st, "SystemTime::from(DateTime) for instant {t}");
            // offset derived from the instant, its sign independent of the instant's sign
            let fo = FixedOffset::east_opt((t.rem_euclid(172_799) - 86_399) as i32).unwrap();
            obs.nt_if(t.div_euclid(NS).abs() < 86_400, "within_a_day_of_the_epoch");
            let to2: SystemTime = call("SystemTime::from", || SystemTime::from(dt.with_timezone(&fo)))?;
            ensure_eq!(to2, st, "SystemTime::from(DateTime<FixedOffset>)");
            // the Local forms of both conversions keep the instant whatever the process zone is
            let lf: DateTime<chrono::Local> = call("From<SystemTime> for DateTime<Local>", || DateTime::<chrono::Local>::from(st))?;
            ensure_eq!(lf.naive_utc(), n, "DateTime::<Local>::from(SystemTime) for instant {t}");
            let to3: SystemTime = call("SystemTime::from", || SystemTime::from(lf))?;
            ensure_eq!(to3, st, "SystemTime::from(DateTime<Local>)");
        } else {
            obs.label("systemtime_unrepresentable");
        }
        // a leap-second reading of this second (when it is a :59): the system clock cannot show second 60,
        // the instant it denotes is the one its timestamp fields add up to (seconds + nanoseconds >= 10^9)
        if m.secs % 60 == 59 && m.frac < 1_000_000_000 {
            obs.nt("leap_reading_to_system_time");
            let lm = Ndt { frac: m.frac + 1_000_000_000, ..*m };
            let ldt = Utc.from_utc_datetime(&conv::ndt(lm));
            // the timestamp fields of a leap-second reading: seconds of second 59, nanoseconds >= 10^9
            #[allow(deprecated)]
            {
                ensure_eq!(ldt.timestamp() as i128, t.div_euclid(NS), "timestamp() of the leap-second reading {lm:?}");
                ensure_eq!(conv::ndt(lm).timestamp() as i128, t.div_euclid(NS), "NaiveDateTime::timestamp() of the leap-second reading {lm:?}");
                ensure_eq!(ldt.timestamp_subsec_nanos(), lm.frac, "timestamp_subsec_nanos() of the leap-second reading {lm:?}");
                ensure_eq!(conv::ndt(lm).timestamp_subsec_nanos(), lm.frac, "NaiveDateTime::timestamp_subsec_nanos() of the leap-second reading {lm:?}");
            }
            let lt = t + NS;
            let (secs, sub) = (lt.div_euclid(NS), lt.rem_euclid(NS) as u32);
            let st = if secs >= 0 {
                UNIX_EPOCH.checked_add(Duration::new(secs as u64, sub))
            } else {
                UNIX_EPOCH.checked_sub(Duration::new((-secs) as u64, 0)).and_then(|x| x.checked_add(Duration::new(0, sub)))
            };
            if let Some(st) = st {
                let to: SystemTime = call("SystemTime::from (leap reading)", || SystemTime::from(ldt))?;
                ensure_eq!(to, st, "SystemTime::from(leap-second reading {lm:?})");
                let fo = FixedOffset::east_opt((t.rem_euclid(172_799) - 86_399) as i32).unwrap();
                let to2: SystemTime = call("SystemTime::from (leap reading)", || SystemTime::from(ldt.with_timezone(&fo)))?;
                ensure_eq!(to2, st, "SystemTime::from(leap-second reading {lm:?} at {fo})");
            }
        }
        Ok(())
    }
}

pub fn subs() -> Vec<Box<dyn DynSub>> {
    vec![Box::new(FromSecs), Box::new(FromUnit), Box::new(Reverse)]
}

pub fn run(ctx: &Ctx) {
    let n = ctx.n(6_000_000, 300_000_000);
    ctx.run_prop(&FromSecs, n);
    ctx.run_prop(&FromUnit, n);
    ctx.run_prop(&Reverse, n);
}
