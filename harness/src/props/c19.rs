//! C19 Weekday, Month and weekday-set algebra is consistent.
use crate::engine::{Ctx, DynSub, Obs, SubCheck};
use crate::guard::call;
use crate::props::c01::WD;
use crate::{ensure, ensure_eq};
use chrono::{Month, Weekday, WeekdaySet};
use num_traits::FromPrimitive;
use proptest::prelude::*;
use std::collections::VecDeque;

pub const MONTHS: [Month; 12] = [
    Month::January, Month::February, Month::March, Month::April, Month::May, Month::June,
    Month::July, Month::August, Month::September, Month::October, Month::November, Month::December,
];
pub const WD_SHORT: [&str; 7] = ["Mon", "Tue", "Wed", "Thu", "Fri", "Sat", "Sun"];
pub const WD_LONG: [&str; 7] = ["Monday", "Tuesday", "Wednesday", "Thursday", "Friday", "Saturday", "Sunday"];
pub const MO_SHORT: [&str; 12] = ["Jan", "Feb", "Mar", "Apr", "May", "Jun", "Jul", "Aug", "Sep", "Oct", "Nov", "Dec"];
pub const MO_LONG: [&str; 12] = ["January", "February", "March", "April", "May", "June", "July", "August", "September", "October", "November", "December"];

fn wd_idx(w: Weekday) -> u32 {
    // independent of the numbering functions under test: position in the literal list
    WD.iter().position(|x| *x == w).unwrap() as u32
}
fn mo_idx(m: Month) -> u32 {
    MONTHS.iter().position(|x| *x == m).unwrap() as u32
}

// ---------------------------------------------------------------------------------------------
pub struct Cycle;
impl SubCheck for Cycle {
    type Case = (u8, u8, u8);
    fn name(&self) -> &'static str {
        "cycles"
    }
    fn rule(&self) -> &'static str {
        "case = (0 weekday pair | 1 month, i, j); all 49 weekday pairs and 12 months enumerated; every case non-trivial (succ/pred cycles, numbering, days_since, names, TryFrom/Display/Debug)"
    }
    fn check(&self, &(kind, i, j): &Self::Case, obs: &mut Obs) -> Result<(), String> {
        obs.nt("cycle");
        if kind == 0 {
            let (a, b) = (WD[i as usize], WD[j as usize]);
            let (ia, ib) = (i as u32, j as u32);
            ensure_eq!(a.succ(), WD[((ia + 1) % 7) as usize], "{a:?}.succ()");
            ensure_eq!(a.pred(), WD[((ia + 6) % 7) as usize], "{a:?}.pred()");
            ensure_eq!(a.succ().pred(), a, "pred(succ)");
            ensure_eq!(a.pred().succ(), a, "succ(pred)");
            let mut x = a;
            for k in 1..=7 {
                x = x.succ();
                ensure!((x == a) == (k == 7), "succ^{k} of {a:?} = {x:?}");
            }
            ensure_eq!(a.number_from_monday(), ia + 1, "number_from_monday");
            ensure_eq!(a.num_days_from_monday(), ia, "num_days_from_monday");
            ensure_eq!(a.number_from_sunday(), (ia + 1) % 7 + 1, "number_from_sunday");
            ensure_eq!(a.num_days_from_sunday(), (ia + 1) % 7, "num_days_from_sunday");
            ensure_eq!(a.days_since(b), (ia + 7 - ib) % 7, "{a:?}.days_since({b:?})");
            ensure_eq!(a.to_string(), WD_SHORT[i as usize], "Display");
            ensure_eq!(format!("{a:?}"), WD_SHORT[i as usize], "Debug");
            ensure_eq!(Weekday::try_from(i).ok(), Some(a), "TryFrom<u8>");
            ensure_eq!(a == b, i == j, "eq");
        } else {
            let m = MONTHS[i as usize];
            let im = i as u32;
            ensure_eq!(m.succ(), MONTHS[((im + 1) % 12) as usize], "{m:?}.succ()");
            ensure_eq!(m.pred(), MONTHS[((im + 11) % 12) as usize], "{m:?}.pred()");
            ensure_eq!(m.succ().pred(), m, "pred(succ)");
            let mut x = m;
            for k in 1..=12 {
                x = x.succ();
                ensure!((x == m) == (k == 12), "succ^{k} of {m:?} = {x:?}");
            }
            ensure_eq!(m.number_from_month(), im + 1, "number_from_month");
            ensure_eq!(m.name(), MO_LONG[i as usize], "name");
            ensure_eq!(format!("{m:?}"), MO_LONG[i as usize], "Debug");
            ensure_eq!(Month::try_from(i + 1).ok(), Some(m), "TryFrom<u8>");
            let other = MONTHS[(j % 12) as usize];
            ensure_eq!(m.partial_cmp(&other), Some(im.cmp(&(j as u32 % 12))), "order of months");
            ensure_eq!(chrono::Months::new(j as u32 * 1000 + i as u32).as_u32(), j as u32 * 1000 + i as u32, "Months::as_u32");
        }
        Ok(())
    }
}

// ---------------------------------------------------------------------------------------------
/// numeric conversions: value is `v` (signed) or `u` (unsigned), `via` selects the entry point
pub struct Num;
#[derive(Clone, Debug, serde::Serialize, serde::Deserialize)]
pub struct NumCase {
    pub signed: bool,
    pub i: i64,
    pub u: u64,
}
impl SubCheck for Num {
    type Case = NumCase;
    fn name(&self) -> &'static str {
        "numeric"
    }
    fn rule(&self) -> &'static str {
        "case = one integer (i64 or u64) fed to TryFrom<u8> and every FromPrimitive entry point whose type can hold it; non-trivial = a valid number, a neighbour of the valid range, or a value congruent to a valid number modulo 2^8, 2^16 or 2^32 (narrowing-cast traps)"
    }
    fn strategy(&self) -> Option<BoxedStrategy<NumCase>> {
        let near = |base: i128| (Just(base), -3i128..=16).prop_map(|(b, d)| b + d);
        Some(
            prop_oneof![
                2 => any::<i64>().prop_map(|i| NumCase { signed: true, i, u: 0 }),
                2 => any::<u64>().prop_map(|u| NumCase { signed: false, i: 0, u }),
                6 => (proptest::sample::select(vec![0i128, 1 << 8, 1 << 16, 1 << 31, 1 << 32, 1 << 33, 1 << 48, 1 << 63, (1i128 << 64) - 20,
                        -(1 << 8), -(1 << 16), -(1 << 31), -(1 << 32), -(1i128 << 63) + 3]), 1i128..5, -3i128..=16)
                    .prop_map(|(b, k, d)| {
                        let v = b * k + d;
                        if v >= 0 && v <= u64::MAX as i128 && (v > i64::MAX as i128 || k % 2 == 0) { NumCase { signed: false, i: 0, u: v as u64 } }
                        else { NumCase { signed: true, i: v.clamp(i64::MIN as i128, i64::MAX as i128) as i64, u: 0 } }
                    }),
                1 => near(0).prop_map(|v| NumCase { signed: true, i: v as i64, u: 0 }),
            ]
            .boxed(),
        )
    }
    fn check(&self, c: &NumCase, obs: &mut Obs) -> Result<(), String> {
        let v: i128 = if c.signed { c.i as i128 } else { c.u as i128 };
        let wd_exp = if (0..=6).contains(&v) { Some(WD[v as usize]) } else { None };
        let mo_exp = if (1..=12).contains(&v) { Some(MONTHS[(v - 1) as usize]) } else { None };
        obs.nt_if(wd_exp.is_some() || mo_exp.is_some(), "valid");
        obs.nt_if((-3..=15).contains(&v) && mo_exp.is_none(), "neighbour");
        for b in [8u32, 16, 32] {
            let r = v.rem_euclid(1i128 << b);
            obs.nt_if(!(0..=12).contains(&v) && r <= 12, match b { 8 => "congruent_mod_2^8", 16 => "congruent_mod_2^16", _ => "congruent_mod_2^32" });
        }
        macro_rules! both {
            ($name:literal, $conv:expr, $wf:expr, $mf:expr) => {
                if let Ok(x) = $conv {
                    let w: Option<Weekday> = call(concat!("Weekday::", $name), || $wf(x))?;
                    ensure_eq!(w, wd_exp, "Weekday::{}({v})", $name);
                    let m: Option<Month> = call(concat!("Month::", $name), || $mf(x))?;
                    ensure_eq!(m, mo_exp, "Month::{}({v})", $name);
                }
            };
        }
        both!("from_i64", i64::try_from(v), Weekday::from_i64, Month::from_i64);
        both!("from_u64", u64::try_from(v), Weekday::from_u64, Month::from_u64);
        both!("from_u32", u32::try_from(v), Weekday::from_u32, Month::from_u32);
        both!("from_i32", i32::try_from(v), Weekday::from_i32, Month::from_i32);
        both!("from_u16", u16::try_from(v), Weekday::from_u16, Month::from_u16);
        both!("from_i16", i16::try_from(v), Weekday::from_i16, Month::from_i16);
        both!("from_u8", u8::try_from(v), Weekday::from_u8, Month::from_u8);
        both!("from_i8", i8::try_from(v), Weekday::from_i8, Month::from_i8);
        both!("from_usize", usize::try_from(v), Weekday::from_usize, Month::from_usize);
        both!("from_isize", isize::try_from(v), Weekday::from_isize, Month::from_isize);
        both!("from_i128", Ok::<i128, ()>(v), Weekday::from_i128, Month::from_i128);
        both!("from_u128", u128::try_from(v), Weekday::from_u128, Month::from_u128);
        // beyond 64 bits: the same low bits, another number
        for k in [1i128, -1, 3] {
            let big = v + (k << 64);
            ensure_eq!(call("Weekday::from_i128", || Weekday::from_i128(big))?, None, "Weekday::from_i128({big})");
            ensure_eq!(call("Month::from_i128", || Month::from_i128(big))?, None, "Month::from_i128({big})");
            if let Ok(ub) = u128::try_from(big) {
                ensure_eq!(call("Weekday::from_u128", || Weekday::from_u128(ub))?, None, "Weekday::from_u128({ub})");
                ensure_eq!(call("Month::from_u128", || Month::from_u128(ub))?, None, "Month::from_u128({ub})");
            }
        }
        if let Ok(b) = u8::try_from(v) {
            ensure_eq!(Weekday::try_from(b).ok(), wd_exp, "Weekday::try_from({b}u8)");
            ensure_eq!(Month::try_from(b).ok(), mo_exp, "Month::try_from({b}u8)");
        }
        // inverse direction on valid values
        if let Some(w) = wd_exp {
            ensure_eq!(w.num_days_from_monday() as i128, v, "num_days_from_monday inverse");
        }
        if let Some(m) = mo_exp {
            ensure_eq!(m.number_from_month() as i128, v, "number_from_month inverse");
        }
        Ok(())
    }
}

// ---------------------------------------------------------------------------------------------
pub struct Text;
fn ref_name(s: &str, short: &[&str], long: &[&str]) -> Option<usize> {
    for i in 0..short.len() {
        if s.eq_ignore_ascii_case(short[i]) || s.eq_ignore_ascii_case(long[i]) {
            return Some(i);
        }
    }
    None
}
impl SubCheck for Text {
    type Case = String;
    fn name(&self) -> &'static str {
        "text"
    }
    fn rule(&self) -> &'static str {
        "case = a string parsed as Weekday and as Month; accepted exactly when it equals a short or long English name in any ASCII letter case; non-trivial = accepted, or within one edit (proper prefix, one-letter extension, one replaced character, case-folding look-alike) of a name"
    }
    fn strategy(&self) -> Option<BoxedStrategy<String>> {
        let names: Vec<&'static str> = WD_SHORT.iter().chain(WD_LONG.iter()).chain(MO_SHORT.iter()).chain(MO_LONG.iter()).copied().collect();
        let n2 = names.clone();
        Some(
            prop_oneof![
                2 => ".{0,12}",
                1 => "[a-zA-Z]{2,10}",
                // concatenated name pieces (names, three-letter heads, long-name tails) in random letter case
                2 => (proptest::collection::vec((0usize..38, 0u8..3), 1..=4), any::<u32>()).prop_map(|(ps, mask)| {
                    let all: Vec<&'static str> = WD_SHORT.iter().chain(WD_LONG.iter()).chain(MO_SHORT.iter()).chain(MO_LONG.iter()).copied().collect();
                    let mut out = String::new();
                    for (i, k) in ps {
                        let n = all[i % all.len()];
                        out.push_str(match k { 0 => n, 1 => &n[..n.len().min(3)], _ => &n[n.len().min(3)..] });
                    }
                    out.chars().enumerate().map(|(i, c)| if mask >> (i % 32) & 1 == 1 { c.to_ascii_uppercase() } else { c.to_ascii_lowercase() }).collect()
                }),
                3 => (proptest::sample::select(names), any::<u16>()).prop_map(|(n, mask)| case_mask(n, mask)),
                4 => (proptest::sample::select(n2), any::<u16>(), 0usize..12, any::<char>(), 0u8..5).prop_map(|(n, mask, pos, ch, op)| {
                    let mut cs: Vec<char> = case_mask(n, mask).chars().collect();
                    let pos = pos % (cs.len() + 1);
                    match op {
                        0 => { cs.insert(pos, ch); }
                        1 => { if pos < cs.len() { cs[pos] = ch; } }
                        2 => { if pos < cs.len() { cs.remove(pos); } }
                        3 => { if pos < cs.len() { cs[pos] = lookalike(cs[pos]); } }
                        _ => { cs.truncate(pos); }
                    }
                    cs.into_iter().collect()
                }),
            ]
            .boxed(),
        )
    }
    fn check(&self, s: &String, obs: &mut Obs) -> Result<(), String> {
        let we = ref_name(s, &WD_SHORT, &WD_LONG);
        let me = ref_name(s, &MO_SHORT, &MO_LONG);
        obs.nt_if(we.is_some() || me.is_some(), "accepted");
        obs.label_if(!s.is_ascii(), "non_ascii");
        let near = we.is_none() && me.is_none() && {
            let l = s.to_ascii_lowercase();
            WD_LONG.iter().chain(MO_LONG.iter()).chain(WD_SHORT.iter()).chain(MO_SHORT.iter()).any(|n| {
                let n = n.to_ascii_lowercase();
                let (a, b): (Vec<char>, Vec<char>) = (l.chars().collect(), n.chars().collect());
                (a.len() as i64 - b.len() as i64).abs() <= 1 && edit_le1(&a, &b) || (a.len() >= 2 && n.starts_with(&l))
            })
        };
        obs.nt_if(near, "near_miss");
        let w = call("Weekday::from_str", || s.parse::<Weekday>())?;
        ensure_eq!(w.ok(), we.map(|i| WD[i]), "{s:?}.parse::<Weekday>()");
        let m = call("Month::from_str", || s.parse::<Month>())?;
        ensure_eq!(m.ok(), me.map(|i| MONTHS[i]), "{s:?}.parse::<Month>()");
        Ok(())
    }
}
fn case_mask(n: &str, mask: u16) -> String {
    n.chars().enumerate().map(|(i, c)| if mask >> i & 1 == 1 { c.to_ascii_uppercase() } else { c.to_ascii_lowercase() }).collect()
}
fn lookalike(c: char) -> char {
    match c.to_ascii_lowercase() {
        's' => '\u{17f}',  // LATIN SMALL LETTER LONG S (uppercases to 'S')
        'k' => '\u{212a}', // KELVIN SIGN
        'i' => '\u{131}',  // dotless i
        'a' => '\u{430}',  // cyrillic a
        'e' => '\u{435}',
        'o' => '\u{43e}',
        'm' => '\u{ff4d}', // full-width m
        other => char::from_u32(other as u32 + 0xFEE0).unwrap_or('?'), // full-width form
    }
}
fn edit_le1(a: &[char], b: &[char]) -> bool {
    if a.len() == b.len() {
        a.iter().zip(b).filter(|(x, y)| x != y).count() <= 1
    } else {
        let (s, l) = if a.len() < b.len() { (a, b) } else { (b, a) };
        (0..l.len()).any(|k| s[..k.min(s.len())] == l[..k.min(s.len())] && s[k.min(s.len())..] == l[(k + 1).min(l.len())..])
    }
}

// ---------------------------------------------------------------------------------------------
fn set_of(mask: u8) -> WeekdaySet {
    (0..7).filter(|i| mask >> i & 1 == 1).map(|i| WD[i]).collect()
}
fn mask_of(s: WeekdaySet) -> u8 {
    (0..7).filter(|&i| s.contains(WD[i])).map(|i| 1u8 << i).sum()
}

pub struct SetPair;
impl SubCheck for SetPair {
    type Case = (u8, u8);
    fn name(&self) -> &'static str {
        "set_pairs"
    }
    fn rule(&self) -> &'static str {
        "case = two 7-bit membership masks, all 128 x 128 enumerated; every pair non-trivial (union, intersection, difference, symmetric difference, subset, equality against a bit model; per-set insert/remove/contains/first/last/len/single_day/Display/from_array/FromIterator)"
    }
    fn check(&self, &(a, b): &Self::Case, obs: &mut Obs) -> Result<(), String> {
        obs.nt("pair");
        let (sa, sb) = (set_of(a), set_of(b));
        ensure_eq!(mask_of(sa), a, "membership of set {a:07b}");
        ensure_eq!(mask_of(sa.union(sb)), a | b, "union");
        ensure_eq!(mask_of(sa.intersection(sb)), a & b, "intersection");
        ensure_eq!(mask_of(sa.difference(sb)), a & !b, "difference");
        ensure_eq!(mask_of(sa.symmetric_difference(sb)), a ^ b, "symmetric_difference");
        ensure_eq!(sa.is_subset(sb), a & !b == 0, "is_subset");
        ensure_eq!(sa == sb, a == b, "eq");
        ensure_eq!(sa.len() as u32, a.count_ones(), "len");
        ensure_eq!(sa.is_empty(), a == 0, "is_empty");
        ensure_eq!(sa.first(), (0..7).find(|i| a >> i & 1 == 1).map(|i| WD[i]), "first");
        ensure_eq!(sa.last(), (0..7).rev().find(|i| a >> i & 1 == 1).map(|i| WD[i]), "last");
        ensure_eq!(sa.single_day(), if a.count_ones() == 1 { Some(WD[a.trailing_zeros() as usize]) } else { None }, "single_day");
        ensure_eq!(sa == WeekdaySet::EMPTY, a == 0, "EMPTY");
        ensure_eq!(sa == WeekdaySet::ALL, a == 127, "ALL");
        // b's low three bits choose a weekday for the element operations
        let d = (b % 7) as usize;
        let mut x = sa;
        let newly = call("insert", || x.insert(WD[d]))?;
        ensure_eq!(newly, a >> d & 1 == 0, "insert return value");
        ensure_eq!(mask_of(x), a | 1 << d, "insert result");
        let mut y = sa;
        let was = call("remove", || y.remove(WD[d]))?;
        ensure_eq!(was, a >> d & 1 == 1, "remove return value");
        ensure_eq!(mask_of(y), a & !(1 << d), "remove result");
        ensure_eq!(mask_of(WeekdaySet::single(WD[d])), 1 << d, "single");
        let names: Vec<&str> = (0..7).filter(|i| a >> i & 1 == 1).map(|i| WD_SHORT[i]).collect();
        ensure_eq!(sa.to_string(), format!("[{}]", names.join(", ")), "Display");
        // from_array with duplicates, FromIterator in reverse order
        let arr = [WD[d], WD[(a % 7) as usize], WD[d]];
        ensure_eq!(mask_of(WeekdaySet::from_array(arr)), 1 << d | 1 << (a % 7), "from_array");
        let rev: WeekdaySet = (0..7).rev().filter(|i| a >> i & 1 == 1).map(|i| WD[i]).collect();
        ensure_eq!(rev, sa, "FromIterator order independence");
        Ok(())
    }
}

pub struct SetIter;
impl SubCheck for SetIter {
    type Case = (u8, u8, u8);
    fn name(&self) -> &'static str {
        "set_iter"
    }
    fn rule(&self) -> &'static str {
        "case = (membership mask, start weekday, 7-bit front/back choice pattern); all 128 x 7 x 128 enumerated; every case non-trivial (each member exactly once in cyclic order from the front, reverse from the back, len exact, fused)"
    }
    fn check(&self, &(a, start, pat): &Self::Case, obs: &mut Obs) -> Result<(), String> {
        obs.nt("iter");
        let s = set_of(a);
        let mut model: VecDeque<usize> = (0..7).map(|k| (start as usize + k) % 7).filter(|i| a >> i & 1 == 1).collect();
        let mut it = s.iter(WD[start as usize]);
        for step in 0..8 {
            ensure_eq!(it.len(), model.len(), "len at step {step}");
            // size_hint is not asserted: the property speaks of length (`len()`), and the iterator keeps
            // the default (0, None) hint - recorded as an observation in DESIGN.md, not a finding.
            let back = pat >> step & 1 == 1;
            let (got, exp) = if back {
                (call("next_back", || it.next_back())?, model.pop_back())
            } else {
                (call("next", || it.next())?, model.pop_front())
            };
            ensure_eq!(got, exp.map(|i| WD[i]), "set {a:07b} start {start} step {step} ({})", if back { "next_back" } else { "next" });
        }
        ensure_eq!(it.next(), None, "fused");
        // plain forward and plain reverse traversals
        let fwd: Vec<Weekday> = s.iter(WD[start as usize]).collect();
        let exp: Vec<Weekday> = (0..7).map(|k| (start as usize + k) % 7).filter(|i| a >> i & 1 == 1).map(|i| WD[i]).collect();
        ensure_eq!(fwd, exp, "forward traversal");
        let mut r: Vec<Weekday> = s.iter(WD[start as usize]).rev().collect();
        r.reverse();
        ensure_eq!(r, exp, "reverse traversal");
        // provided iterator methods agree with stepping (fresh, and after a few steps from both ends)
        let k = (pat & 7) as usize;
        ensure_eq!(call("last", || s.iter(WD[start as usize]).last())?, exp.last().copied(), "last() of set {a:07b} from {start}");
        ensure_eq!(call("count", || s.iter(WD[start as usize]).count())?, exp.len(), "count()");
        ensure_eq!(call("nth", || s.iter(WD[start as usize]).nth(k))?, exp.get(k).copied(), "nth({k})");
        ensure_eq!(call("nth_back", || s.iter(WD[start as usize]).nth_back(k))?, exp.iter().rev().nth(k).copied(), "nth_back({k})");
        ensure_eq!(call("rev.last", || s.iter(WD[start as usize]).rev().last())?, exp.first().copied(), "rev().last()");
        ensure_eq!(call("max", || s.iter(WD[start as usize]).map(|w| w.num_days_from_monday()).max())?, exp.iter().map(|w| w.num_days_from_monday()).max(), "max over the iteration");
        let (front, back) = ((pat >> 3 & 3) as usize, (pat >> 5 & 3) as usize);
        let mut it = s.iter(WD[start as usize]);
        let mut rest: VecDeque<Weekday> = exp.iter().copied().collect();
        for _ in 0..front { it.next(); rest.pop_front(); }
        for _ in 0..back { it.next_back(); rest.pop_back(); }
        ensure_eq!(call("last after steps", || it.clone().last())?, rest.back().copied(), "last() after {front} front and {back} back steps of set {a:07b} from {start}");
        ensure_eq!(call("nth after steps", || it.clone().nth(1))?, rest.get(1).copied(), "nth(1) after steps");
        // a skip from either end leaves exactly the members it did not pass
        for (back, j) in [(true, 0usize), (true, 1), (false, 1), (true, 2)] {
            let mut it2 = it.clone();
            let mut rest2 = rest.clone();
            let got = if back { it2.nth_back(j) } else { it2.nth(j) };
            let mut exp = None;
            for _ in 0..=j { exp = if back { rest2.pop_back() } else { rest2.pop_front() }; if exp.is_none() { break; } }
            ensure_eq!(got, exp, "{}({j}) after steps of set {a:07b} from {start}", if back { "nth_back" } else { "nth" });
            ensure_eq!(it2.len(), rest2.len(), "len() after {}({j})", if back { "nth_back" } else { "nth" });
            ensure_eq!(it2.collect::<Vec<_>>(), rest2.iter().copied().collect::<Vec<_>>(), "members left after {}({j}) of set {a:07b} from {start}", if back { "nth_back" } else { "nth" });
        }
        ensure_eq!(call("collect after steps", || it.collect::<Vec<_>>())?, rest.iter().copied().collect::<Vec<_>>(), "remaining members after steps");
        let _ = (wd_idx(WD[0]), mo_idx(MONTHS[0]));
        Ok(())
    }
}

pub struct FromArray;
impl SubCheck for FromArray {
    type Case = Vec<u8>;
    fn name(&self) -> &'static str {
        "from_array"
    }
    fn rule(&self) -> &'static str {
        "case = list of 0..=24 weekday indices (duplicates allowed); WeekdaySet::from_array over an array of exactly that length and FromIterator over the same list = the set of distinct members; non-trivial = the list holds a duplicate or more than seven entries"
    }
    fn strategy(&self) -> Option<BoxedStrategy<Self::Case>> {
        Some(prop_oneof![
            3 => proptest::collection::vec(0u8..7, 0..=24),
            // one weekday repeated, a different one somewhere
            1 => (0u8..7, 0u8..7, 1usize..=24, any::<proptest::sample::Index>()).prop_map(|(a, b, n, ix)| {
                let mut v = vec![a; n];
                let k = ix.index(n);
                v[k] = b;
                v
            }),
        ].boxed())
    }
    fn check(&self, v: &Self::Case, obs: &mut Obs) -> Result<(), String> {
        let exp: u8 = v.iter().fold(0, |m, &i| m | 1 << i);
        obs.nt_if(v.len() > 7, "more_than_seven_entries");
        obs.nt_if((exp.count_ones() as usize) < v.len(), "duplicates");
        obs.label_if(v.iter().enumerate().any(|(k, &i)| k >= 7 && !v[..k].contains(&i)), "new_member_after_index_6");
        let days: Vec<Weekday> = v.iter().map(|&i| WD[i as usize]).collect();
        macro_rules! sized {
            ($($n:literal)*) => {
                match days.len() {
                    $($n => {
                        let arr: [Weekday; $n] = days.clone().try_into().map_err(|_| "harness: array length")?;
                        call("from_array", || WeekdaySet::from_array(arr))?
                    })*
                    _ => return Err("harness: unsupported length".into()),
                }
            };
        }
        let got = sized!(0 1 2 3 4 5 6 7 8 9 10 11 12 13 14 15 16 17 18 19 20 21 22 23 24);
        ensure_eq!(mask_of(got), exp, "from_array({v:?})");
        let it: WeekdaySet = days.iter().copied().collect();
        ensure_eq!(mask_of(it), exp, "FromIterator({v:?})");
        ensure_eq!(got.len() as u32, exp.count_ones(), "len of from_array({v:?})");
        Ok(())
    }
}

pub struct MonthLen;
impl SubCheck for MonthLen {
    type Case = (i32, u8);
    fn name(&self) -> &'static str {
        "month_num_days"
    }
    fn rule(&self) -> &'static str {
        "case = (year, month index); every year of the supported range and ten beyond each end plus i32 extremes x 12 months enumerated; Month::num_days(year) = length of that month under the Gregorian leap rule for supported years, February of an unsupported year = None (other months of unsupported years not judged); Datelike::num_days_in_month of the first day agrees; non-trivial = February, or year outside the supported range"
    }
    fn check(&self, &(y, m0): &Self::Case, obs: &mut Obs) -> Result<(), String> {
        use crate::refmodel::cal;
        use chrono::Datelike;
        let month = MONTHS[m0 as usize];
        let in_range = (cal::MIN_YEAR..=cal::MAX_YEAR).contains(&(y as i64));
        obs.nt_if(m0 == 1, "february");
        obs.nt_if(!in_range, "unsupported_year");
        obs.label_if(m0 == 1 && y % 100 == 0, "century_february");
        obs.label_if(y <= 0, "year_le_0");
        let got = call("Month::num_days", || month.num_days(y))?;
        if in_range {
            let exp = cal::days_in_month(y as i64, m0 as u32 + 1);
            ensure_eq!(got.map(u32::from), Some(exp), "{month:?}.num_days({y})");
            let d = chrono::NaiveDate::from_ymd_opt(y, m0 as u32 + 1, 1).ok_or_else(|| format!("from_ymd_opt({y}, {}, 1) refused", m0 + 1))?;
            ensure_eq!(call("num_days_in_month", || d.num_days_in_month())? as u32, exp, "num_days_in_month of {d:?}");
        } else if m0 == 1 {
            ensure_eq!(got, None, "February.num_days({y}) for a year outside the supported range");
        }
        Ok(())
    }
}

pub fn subs() -> Vec<Box<dyn DynSub>> {
    vec![Box::new(Cycle), Box::new(Num), Box::new(Text), Box::new(SetPair), Box::new(SetIter), Box::new(FromArray), Box::new(MonthLen)]
}

pub fn run(ctx: &Ctx) {
    ctx.run_enum_opt(&Cycle, 2, |c| {
        let v: Vec<(u8, u8, u8)> = if c == 0 {
            (0..7).flat_map(|i| (0..7).map(move |j| (0u8, i, j))).collect()
        } else {
            (0..12).flat_map(|i| (0..12).map(move |j| (1u8, i, j))).collect()
        };
        v.into_iter()
    }, true, true);
    ctx.run_enum_opt(&SetPair, 128, |a| (0u8..128).map(move |b| (a as u8, b)), true, true);
    ctx.run_enum_opt(&SetIter, 128, |a| (0u8..7).flat_map(move |s| (0u8..128).map(move |p| (a as u8, s, p))), true, true);
    ctx.run_prop(&FromArray, ctx.n(400_000, 20_000_000));
    ctx.run_enum_opt(&MonthLen, 64, |c| {
        let (lo, hi) = (-262_153i64, 262_152i64);
        let per = (hi - lo + 1) / 64 + 1;
        let a = lo + c as i64 * per;
        let mut ys: Vec<i32> = (a..(a + per).min(hi + 1)).map(|y| y as i32).collect();
        if c == 0 {
            ys.extend([i32::MIN, i32::MIN + 1, i32::MAX - 1, i32::MAX, -1_000_000, 1_000_000, -400_000, 400_000]);
        }
        ys.into_iter().flat_map(|y| (0u8..12).map(move |m| (y, m)))
    }, true, true);
    // integers: every value in [-70000, 70000] and the 2^k neighbourhoods, then random
    ctx.run_enum_opt(&Num, 64, |c| {
        let mut v: Vec<NumCase> = vec![];
        let per = 140_001 / 64 + 1;
        let lo = -70_000i64 + c as i64 * per;
        for i in lo..(lo + per).min(70_001) {
            v.push(NumCase { signed: true, i, u: 0 });
            if i >= 0 {
                v.push(NumCase { signed: false, i: 0, u: i as u64 });
            }
        }
        if c == 0 {
            for sh in [8u32, 16, 31, 32, 33, 40, 48, 56, 63] {
                for k in 1i128..=4 {
                    for d in -20i128..=20 {
                        let x = (1i128 << sh) * k + d;
                        if let Ok(i) = i64::try_from(x) { v.push(NumCase { signed: true, i, u: 0 }); }
                        if let Ok(i) = i64::try_from(-x) { v.push(NumCase { signed: true, i, u: 0 }); }
                        if let Ok(u) = u64::try_from(x) { v.push(NumCase { signed: false, i: 0, u }); }
                    }
                }
            }
            for d in 0..=20u64 { v.push(NumCase { signed: false, i: 0, u: u64::MAX - d }); }
            for d in 0..=20i64 { v.push(NumCase { signed: true, i: i64::MAX - d, u: 0 }); v.push(NumCase { signed: true, i: i64::MIN + d, u: 0 }); }
        }
        v.into_iter()
    }, false, false);
    ctx.run_prop(&Num, ctx.n(4_000_000, 50_000_000));
    // strings: every name x every letter-case mask, every proper prefix and one-letter extension
    let names: Vec<&'static str> = WD_SHORT.iter().chain(WD_LONG.iter()).chain(MO_SHORT.iter()).chain(MO_LONG.iter()).copied().collect();
    let names = &names;
    ctx.run_enum_opt(&Text, names.len(), |k| {
        let n = names[k];
        let mut v: Vec<String> = (0u16..(1 << n.len())).map(|m| case_mask(n, m)).collect();
        for p in 0..n.len() { v.push(n[..p].to_string()); v.push(n[..p].to_ascii_uppercase()); }
        for c in (b'a'..=b'z').chain(b'A'..=b'Z').chain(*b" 0-.") {
            v.push(format!("{n}{}", c as char));
            v.push(format!("{}{n}", c as char));
        }
        // a name followed by (a repetition of) a name or of the tail that turns a short name into a long one
        for other in names.iter() {
            for piece in [other.to_string(), other[other.len().min(3)..].to_string()] {
                if piece.is_empty() { continue; }
                for reps in 1..=3 {
                    let tail = piece.repeat(reps);
                    v.push(format!("{n}{tail}"));
                    v.push(format!("{}{}", n.to_ascii_uppercase(), tail));
                    v.push(format!("{n}{}", tail.to_ascii_uppercase()));
                }
            }
        }
        v.into_iter()
    }, false, false);
    ctx.run_prop(&Text, ctx.n(2_500_000, 50_000_000));
}
