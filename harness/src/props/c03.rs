//! C03 Adding and subtracting elapsed time is exact or refused, never wrapped.
use crate::engine::{Ctx, DynSub, Obs, SubCheck};
use crate::gen;
use crate::guard::{call, expect_panic};
use crate::props::c06::{dur, D};
use crate::refmodel::cal;
use crate::refmodel::inst::{self, Ndt, DAY_NS, NS, TD_MAX_NS};
use crate::{conv, ensure, ensure_eq};
use chrono::{DateTime, Days, FixedOffset, NaiveDate, NaiveDateTime, TimeDelta, TimeZone};
use proptest::prelude::*;
use serde::{Deserialize, Serialize};

fn model_of(n: &NaiveDateTime) -> i128 {
    inst::join(conv::model_of(n))
}

// ---------------------------------------------------------------------------------------------
#[derive(Clone, Debug, Serialize, Deserialize)]
pub struct DtDurCase {
    pub a: Ndt,
    pub d: D,
    pub off: i32,
}
pub struct DtDur;
impl SubCheck for DtDur {
    type Case = DtDurCase;
    fn name(&self) -> &'static str {
        "datetime_plus_duration"
    }
    fn rule(&self) -> &'static str {
        "case = (non-leap date-time, duration, offset); checked_add/sub_signed, operators, std Duration forms and the zone-aware forms against i128 instants; non-trivial = exact result within one day of a range end (inside or outside), or the result leaves the calendar year, or a negative duration with non-zero sub-second part"
    }
    fn strategy(&self) -> Option<BoxedStrategy<DtDurCase>> {
        let m = TD_MAX_NS;
        let d = prop_oneof![
            3 => dur(),
            3 => (-2_000_000_000i128..=2_000_000_000).prop_map(D::of),
            3 => (-400_000i128..400_000, -2i128..=2).prop_map(|(days, e)| D::of(days * DAY_NS + e)),
            1 => (-200_000_000i128..200_000_000, -2i128..=2).prop_map(|(days, e)| D::of(days * DAY_NS + e)),
        ];
        let plain = (gen::ndt(), d, gen::offset_secs()).prop_map(|(a, d, off)| DtDurCase { a, d, off });
        // duration aimed at the range end: exactly MAX - a, MIN - a and a few ns around
        let aimed = (gen::ndt(), any::<bool>(), any::<bool>(), -2i128..=2, gen::offset_secs()).prop_map(move |(a, hi, sub, e, off)| {
            let t = inst::join(a);
            let target = if hi { inst::max_inst() + e } else { inst::min_inst() + e };
            let d = if sub { t - target } else { target - t };
            DtDurCase { a, d: D::of(d.clamp(-m, m)), off }
        });
        Some(prop_oneof![3 => plain, 2 => aimed].boxed())
    }
    fn check(&self, c: &DtDurCase, obs: &mut Obs) -> Result<(), String> {
        let t = inst::join(c.a);
        let d = c.d.ns();
        let a = conv::ndt(c.a);
        let td = c.d.td()?;
        obs.nt_if(d < 0 && d % NS != 0, "negative_with_subsec");
        let fo = FixedOffset::east_opt(c.off).ok_or("harness: offset")?;
        let za = fo.from_utc_datetime(&a);
        for (name, exact, neg) in [("checked_add_signed", t + d, false), ("checked_sub_signed", t - d, true)] {
            let near_end = (exact - inst::max_inst()).abs() <= DAY_NS || (exact - inst::min_inst()).abs() <= DAY_NS;
            obs.nt_if(near_end, "result_near_range_end");
            let ok = inst::in_range(exact);
            obs.label_if(!ok, "out_of_range");
            if ok {
                let (y0, _, _) = cal::civil_from_days(c.a.day);
                let (y1, _, _) = cal::civil_from_days(exact.div_euclid(DAY_NS) as i64);
                obs.nt_if(y0 != y1, "leaves_calendar_year");
            }
            let got = call(name, || if neg { a.checked_sub_signed(td) } else { a.checked_add_signed(td) })?;
            let zgot = call("DateTime checked_*_signed", || if neg { za.checked_sub_signed(td) } else { za.checked_add_signed(td) })?;
            match got {
                Some(r) => {
                    ensure!(ok, "{name}: {t} {} {d} is not representable but Some({r:?}) was returned", if neg { "-" } else { "+" });
                    ensure_eq!(model_of(&r), exact, "{name}({t}, {d})");
                    let o = call("operator", || if neg { a - td } else { a + td })?;
                    ensure_eq!(o, r, "operator form of {name}");
                    let mut x = a;
                    call("op-assign", || if neg { x -= td } else { x += td })?;
                    ensure_eq!(x, r, "assign form of {name}");
                    if d >= 0 {
                        let sd = td.to_std().map_err(|_| "harness: to_std")?;
                        let s = call("std Duration operator", || if neg { a - sd } else { a + sd })?;
                        ensure_eq!(s, r, "std::time::Duration form of {name}");
                    }
                    // zone-aware: same instant whatever the offset, offset kept
                    let z = zgot.ok_or_else(|| format!("DateTime<FixedOffset>::{name} failed where the naive form succeeds"))?;
                    ensure_eq!(z.naive_utc(), r, "DateTime<FixedOffset>::{name} instant (offset {})", c.off);
                    ensure_eq!(z.offset().local_minus_utc(), c.off, "DateTime::{name} keeps the offset");
                    let zo = call("DateTime operator", || if neg { za - td } else { za + td })?;
                    ensure_eq!(zo, z, "DateTime operator form of {name}");
                    let mut zx = za;
                    call("DateTime op-assign", || if neg { zx -= td } else { zx += td })?;
                    ensure_eq!(zx, z, "DateTime assign form of {name}");
                    if d >= 0 {
                        let sd = td.to_std().map_err(|_| "harness: to_std")?;
                        ensure_eq!(call("DateTime std Duration operator", || if neg { za - sd } else { za + sd })?, z, "DateTime std::time::Duration form of {name}");
                        let mut zy = za;
                        call("DateTime std Duration op-assign", || if neg { zy -= sd } else { zy += sd })?;
                        ensure_eq!(zy, z, "DateTime std::time::Duration assign form of {name}");
                        let mut ny = a;
                        call("NaiveDateTime std Duration op-assign", || if neg { ny -= sd } else { ny += sd })?;
                        ensure_eq!(ny, r, "NaiveDateTime std::time::Duration assign form of {name}");
                    }
                    // distance back
                    let back = call("signed_duration_since", || r.signed_duration_since(a))?;
                    ensure_eq!(conv::td_ns(&back), exact - t, "signed_duration_since after {name}");
                }
                None => {
                    ensure!(!ok, "{name}: {t} {} {d} = {exact} is representable but None was returned", if neg { "-" } else { "+" });
                    ensure!(zgot.is_none(), "DateTime<FixedOffset>::{name} succeeded where the instant is not representable");
                    expect_panic("operator on overflow", || if neg { a - td } else { a + td })?;
                }
            }
        }
        Ok(())
    }
}

// ---------------------------------------------------------------------------------------------
#[derive(Clone, Debug, Serialize, Deserialize)]
pub struct DtPairCase {
    pub a: Ndt,
    pub b: Ndt,
    pub oa: i32,
    pub ob: i32,
}
pub struct DtPair;
impl SubCheck for DtPair {
    type Case = DtPairCase;
    fn name(&self) -> &'static str {
        "datetime_pair"
    }
    fn rule(&self) -> &'static str {
        "case = two non-leap date-times with offsets; a-b exact, b+(a-b)=a, order = sign of the distance, same for zone-aware values with any offsets; non-trivial = the two differ by less than 2 s or lie in different years or one is within a day of a range end"
    }
    fn strategy(&self) -> Option<BoxedStrategy<DtPairCase>> {
        Some(
            prop_oneof![
                3 => (gen::ndt(), gen::ndt()),
                3 => (gen::ndt(), -3_000_000_000i128..=3_000_000_000).prop_map(|(a, e)| (a, inst::split((inst::join(a) + e).clamp(inst::min_inst(), inst::max_inst())))),
                1 => (gen::ndt(), -800i128..=800, -2i128..=2).prop_map(|(a, days, e)| (a, inst::split((inst::join(a) + days * DAY_NS + e).clamp(inst::min_inst(), inst::max_inst())))),
                1 => Just((inst::split(inst::min_inst()), inst::split(inst::max_inst()))),
            ]
            .prop_flat_map(|(a, b)| (Just(a), Just(b), gen::offset_secs(), gen::offset_secs()))
            .prop_map(|(a, b, oa, ob)| DtPairCase { a, b, oa, ob })
            .boxed(),
        )
    }
    fn check(&self, c: &DtPairCase, obs: &mut Obs) -> Result<(), String> {
        let (ta, tb) = (inst::join(c.a), inst::join(c.b));
        let diff = ta - tb;
        obs.nt_if(diff.abs() < 2 * NS, "close_pair");
        obs.nt_if(cal::civil_from_days(c.a.day).0 != cal::civil_from_days(c.b.day).0, "different_years");
        obs.nt_if(inst::max_inst() - ta.max(tb) <= DAY_NS || ta.min(tb) - inst::min_inst() <= DAY_NS, "near_range_end");
        let (a, b) = (conv::ndt(c.a), conv::ndt(c.b));
        let d = call("signed_duration_since", || a.signed_duration_since(b))?;
        ensure_eq!(conv::td_ns(&d), diff, "signed_duration_since({ta}, {tb})");
        ensure_eq!(call("Sub", || a - b)?, d, "a - b operator");
        ensure_eq!(call("checked_add_signed", || b.checked_add_signed(d))?, Some(a), "b + (a - b) == a");
        ensure_eq!(call("checked_sub_signed", || a.checked_sub_signed(d))?, Some(b), "a - (a - b) == b");
        ensure_eq!(a.cmp(&b), diff.cmp(&0), "order of date-times vs sign of the distance");
        ensure_eq!(a == b, diff == 0, "equality vs distance");
        // plain dates
        let dd = call("NaiveDate::signed_duration_since", || a.date().signed_duration_since(b.date()))?;
        ensure_eq!(conv::td_ns(&dd), (c.a.day - c.b.day) as i128 * DAY_NS, "date distance");
        ensure_eq!(call("date Sub", || a.date() - b.date())?, dd, "date - date operator");
        // zone-aware
        let fa = FixedOffset::east_opt(c.oa).ok_or("harness: offset")?;
        let fb = FixedOffset::east_opt(c.ob).ok_or("harness: offset")?;
        let (za, zb) = (fa.from_utc_datetime(&a), fb.from_utc_datetime(&b));
        let zd = call("DateTime::signed_duration_since", || za.signed_duration_since(zb))?;
        ensure_eq!(zd, d, "zone-aware distance with offsets {} / {}", c.oa, c.ob);
        let zb_a = fa.from_utc_datetime(&b);
        ensure_eq!(call("DateTime Sub", || za - zb_a)?, d, "zone-aware a - b operator");
        ensure_eq!(call("DateTime Sub ref", || za - &zb_a)?, d, "zone-aware a - &b operator");
        // the same operators with *different* offsets on the two operands
        ensure_eq!(call("DateTime Sub", || za - zb)?, d, "zone-aware a - b operator, offsets {} / {}", c.oa, c.ob);
        ensure_eq!(call("DateTime Sub ref", || za - &zb)?, d, "zone-aware a - &b operator, offsets {} / {}", c.oa, c.ob);
        ensure_eq!(call("DateTime Sub ref", || zb - &za)?, -d, "zone-aware b - &a operator, offsets {} / {}", c.ob, c.oa);
        ensure_eq!(za.cmp(&zb.with_timezone(&fa)), diff.cmp(&0), "zone-aware order");
        ensure_eq!(za.partial_cmp(&zb), Some(diff.cmp(&0)), "zone-aware order across offsets");
        let r = call("DateTime checked_add_signed", || zb.checked_add_signed(d))?;
        ensure_eq!(r.map(|x| x.naive_utc()), Some(a), "zone-aware b + (a - b)");
        Ok(())
    }
}

// ---------------------------------------------------------------------------------------------
pub struct DateDays;
impl SubCheck for DateDays {
    type Case = (i64, u64);
    fn name(&self) -> &'static str {
        "date_days"
    }
    fn rule(&self) -> &'static str {
        "case = (date, u64 day count) for checked_add_days / checked_sub_days / + Days; non-trivial = result within 2 days of a range end (either side), or leaves the calendar year, or count beyond i32"
    }
    fn strategy(&self) -> Option<BoxedStrategy<Self::Case>> {
        let n = prop_oneof![
            3 => 0u64..800,
            2 => proptest::sample::select(vec![0u64, 1, 364, 365, 366, 367, 146_097, i32::MAX as u64 - 1, i32::MAX as u64, i32::MAX as u64 + 1, u32::MAX as u64, u64::MAX - 1, u64::MAX]),
            2 => 0u64..200_000_000,
            1 => any::<u64>(),
        ];
        let aimed = (gen::day(), any::<bool>(), -2i64..=2).prop_map(|(z, hi, e)| {
            let n = if hi { cal::max_day() - z + e } else { z - cal::min_day() + e };
            (z, n.max(0) as u64)
        });
        Some(prop_oneof![3 => (gen::day(), n), 2 => aimed].boxed())
    }
    fn check(&self, &(z, n): &Self::Case, obs: &mut Obs) -> Result<(), String> {
        let d = conv::date(z);
        obs.nt_if(n > i32::MAX as u64, "count_beyond_i32");
        for (name, sign) in [("checked_add_days", 1i128), ("checked_sub_days", -1i128)] {
            let exact = z as i128 + sign * n as i128;
            let ok = exact >= cal::min_day() as i128 && exact <= cal::max_day() as i128;
            obs.nt_if((exact - cal::max_day() as i128).abs() <= 2 || (exact - cal::min_day() as i128).abs() <= 2, "result_at_range_end");
            if ok {
                obs.nt_if(cal::civil_from_days(exact as i64).0 != cal::civil_from_days(z).0, "leaves_calendar_year");
            }
            let got = call(name, || if sign > 0 { d.checked_add_days(Days::new(n)) } else { d.checked_sub_days(Days::new(n)) })?;
            match got {
                Some(r) => {
                    ensure!(ok, "{name}(day {z}, {n}) returned Some({r:?}) for an unrepresentable date");
                    ensure_eq!(conv::unix_day_of(r) as i128, exact, "{name}(day {z}, {n})");
                    crate::props::c01::check_fields(&r, exact as i64)?;
                    ensure_eq!(call("Days operator", || if sign > 0 { d + Days::new(n) } else { d - Days::new(n) })?, r, "operator form of {name}");
                    // the date-time wrappers keep the time of day
                    let tod = chrono::NaiveTime::from_num_seconds_from_midnight_opt((z.rem_euclid(86_400)) as u32, (n % 1_000_000_000) as u32).ok_or("harness: time")?;
                    let nd = d.and_time(tod);
                    let rn = call("NaiveDateTime::checked_*_days", || if sign > 0 { nd.checked_add_days(Days::new(n)) } else { nd.checked_sub_days(Days::new(n)) })?;
                    ensure_eq!(rn, Some(r.and_time(tod)), "NaiveDateTime::{name}");
                    ensure_eq!(call("NaiveDateTime Days operator", || if sign > 0 { nd + Days::new(n) } else { nd - Days::new(n) })?, r.and_time(tod), "NaiveDateTime operator form of {name}");
                }
                None => {
                    ensure!(!ok, "{name}(day {z}, {n}) = None although day {exact} is representable");
                    expect_panic("Days operator on overflow", || if sign > 0 { d + Days::new(n) } else { d - Days::new(n) })?;
                }
            }
        }
        Ok(())
    }
}

// ---------------------------------------------------------------------------------------------
pub struct DateDur;
impl SubCheck for DateDur {
    type Case = (i64, D);
    fn name(&self) -> &'static str {
        "date_duration"
    }
    fn rule(&self) -> &'static str {
        "case = (date, duration) for NaiveDate::checked_add/sub_signed and operators: moves by whole days, duration truncated toward zero; non-trivial = duration not a whole number of days, or result within 2 days of a range end, or |days| beyond i32"
    }
    fn strategy(&self) -> Option<BoxedStrategy<Self::Case>> {
        let d = prop_oneof![
            2 => dur(),
            3 => (-400_000i128..400_000, -DAY_NS + 1..DAY_NS).prop_map(|(days, e)| D::of(days * DAY_NS + e)),
            2 => (-3i128..=3, proptest::sample::select(vec![-1i128, 0, 1, DAY_NS - 1, -(DAY_NS - 1)])).prop_map(|(days, e)| D::of(days * DAY_NS + e)),
            1 => (proptest::sample::select(vec![i32::MAX as i128, i32::MIN as i128]), -2i128..=2, -1i128..=1).prop_map(|(b, k, e)| D::of(((b + k) * DAY_NS + e).clamp(-TD_MAX_NS, TD_MAX_NS))),
        ];
        let aimed = (gen::day(), any::<bool>(), -2i64..=2, -DAY_NS + 1..DAY_NS).prop_map(|(z, hi, e, f)| {
            let days = if hi { cal::max_day() - z + e } else { cal::min_day() - z + e };
            (z, D::of(days as i128 * DAY_NS + f))
        });
        Some(prop_oneof![3 => (gen::day(), d), 2 => aimed].boxed())
    }
    fn check(&self, &(z, c): &Self::Case, obs: &mut Obs) -> Result<(), String> {
        let d = conv::date(z);
        let td = c.td()?;
        let ns = c.ns();
        let whole = ns / DAY_NS; // truncation toward zero
        obs.nt_if(ns % DAY_NS != 0, "fractional_days");
        obs.nt_if(whole.abs() > i32::MAX as i128, "days_beyond_i32");
        for (name, sign) in [("checked_add_signed", 1i128), ("checked_sub_signed", -1i128)] {
            let exact = z as i128 + sign * whole;
            let ok = exact >= cal::min_day() as i128 && exact <= cal::max_day() as i128;
            obs.nt_if((exact - cal::max_day() as i128).abs() <= 2 || (exact - cal::min_day() as i128).abs() <= 2, "result_at_range_end");
            let got = call(name, || if sign > 0 { d.checked_add_signed(td) } else { d.checked_sub_signed(td) })?;
            match got {
                Some(r) => {
                    ensure!(ok, "NaiveDate::{name}(day {z}, {ns} ns) returned Some({r:?}) for an unrepresentable date");
                    ensure_eq!(conv::unix_day_of(r) as i128, exact, "NaiveDate::{name}(day {z}, {ns} ns)");
                    ensure_eq!(call("operator", || if sign > 0 { d + td } else { d - td })?, r, "operator form");
                    let mut x = d;
                    call("op-assign", || if sign > 0 { x += td } else { x -= td })?;
                    ensure_eq!(x, r, "assign form");
                }
                None => {
                    ensure!(!ok, "NaiveDate::{name}(day {z}, {ns} ns) = None although day {exact} is representable");
                    expect_panic("operator on overflow", || if sign > 0 { d + td } else { d - td })?;
                }
            }
        }
        Ok(())
    }
}

// ---------------------------------------------------------------------------------------------
#[derive(Clone, Debug, Serialize, Deserialize)]
pub struct IterCase {
    pub start: i64,
    pub weeks: bool,
    pub back: bool,
    pub take: u32,
}
pub struct Iter;
impl SubCheck for Iter {
    type Case = IterCase;
    fn name(&self) -> &'static str {
        "iterators"
    }
    fn rule(&self) -> &'static str {
        "case = (start date, days|weeks, forward|backward, number of steps); steps are exactly 1 / 7 days, forward iteration ends at the range limit, size_hint/len are exact and drop by one per step, the iterator is fused; non-trivial = the traversal reaches the range limit, or crosses a year boundary"
    }
    fn strategy(&self) -> Option<BoxedStrategy<IterCase>> {
        let near_end = (0i64..5000, any::<bool>()).prop_map(|(d, hi)| if hi { cal::max_day() - d } else { cal::min_day() + d });
        Some(
            (prop_oneof![3 => near_end, 2 => gen::day()], any::<bool>(), any::<bool>(), prop_oneof![3 => 0u32..40, 1 => 0u32..6000])
                .prop_map(|(start, weeks, back, take)| IterCase { start, weeks, back, take })
                .boxed(),
        )
    }
    fn check(&self, c: &IterCase, obs: &mut Obs) -> Result<(), String> {
        let step = if c.weeks { 7 } else { 1 };
        let d = conv::date(c.start);
        let (lo, hi) = (cal::min_day(), cal::max_day());
        // number of items the model yields: start + k*step while the *next* value is still in range
        // (the implementation keeps the next value, so the final representable date is not yielded)
        let avail_fwd = (hi - c.start) / step;
        let avail_bwd = (c.start - lo) / step;
        let avail = if c.back { avail_bwd } else { avail_fwd } as u64;
        let n = (c.take as u64).min(avail + 2);
        obs.nt_if(n > avail, "reaches_range_limit");
        macro_rules! drive {
            ($it:expr) => {{
                let mut it = $it;
                let mut cur = c.start;
                let mut yielded = 0u64;
                for k in 0..n {
                    if !c.back {
                        let (l, u) = it.size_hint();
                        let remaining = (hi - cur) / step;
                        ensure!(l as i64 == remaining && u == Some(l), "size_hint {l}/{u:?} at step {k}, expected exactly {remaining}");
                        ensure_eq!(it.len() as i64, remaining, "len() at step {k}");
                    }
                    let got = call("iterator step", || if c.back { it.next_back() } else { it.next() })?;
                    let next_ok = if c.back { cur - step >= lo } else { cur + step <= hi };
                    if next_ok {
                        ensure_eq!(got.map(conv::unix_day_of), Some(cur), "item {k} from day {}", c.start);
                        obs.nt_if(cal::civil_from_days(cur).0 != cal::civil_from_days(if c.back { cur - step } else { cur + step }).0, "crosses_year");
                        cur = if c.back { cur - step } else { cur + step };
                        yielded += 1;
                    } else {
                        ensure_eq!(got, None, "iterator must end at the range limit (step {k} from day {})", c.start);
                        let again = call("iterator step", || if c.back { it.next_back() } else { it.next() })?;
                        ensure_eq!(again, None, "fused after the end");
                        break;
                    }
                }
                yielded
            }};
        }
        let y = if c.weeks { drive!(d.iter_weeks()) } else { drive!(d.iter_days()) };
        ensure!(y <= avail, "yielded more than available");
        // whole-length count agrees with the hint when the traversal is short enough to finish
        if !c.back && avail_fwd <= 6000 {
            let (cnt, hint) = if c.weeks { (d.iter_weeks().count(), d.iter_weeks().size_hint().0) } else { (d.iter_days().count(), d.iter_days().size_hint().0) };
            ensure_eq!(cnt, hint, "counted length vs size_hint from day {}", c.start);
            ensure_eq!(cnt as i64, avail_fwd, "counted length from day {}", c.start);
            // the last item is the last representable date the step can reach, or the one before it
            let last = if c.weeks { d.iter_weeks().last() } else { d.iter_days().last() };
            if let Some(l) = last {
                let lz = conv::unix_day_of(l);
                ensure!(hi - lz < 2 * step, "forward iteration stops {} days before the range limit", hi - lz);
            }
            // ... and it is exactly the item the last successful step yields
            let want = if avail_fwd > 0 { Some(c.start + (avail_fwd - 1) * step) } else { None };
            ensure_eq!(last.map(conv::unix_day_of), want, "last() of a fresh forward iterator from day {}", c.start);
            // the other consuming adaptors of the provided set agree with walking
            let (mx, mn) = if c.weeks { (Iterator::max(d.iter_weeks()), Iterator::min(d.iter_weeks())) } else { (Iterator::max(d.iter_days()), Iterator::min(d.iter_days())) };
            ensure_eq!(mx.map(conv::unix_day_of), want, "max() of a forward iterator from day {}", c.start);
            ensure_eq!(mn.map(conv::unix_day_of), want.map(|_| c.start), "min() of a forward iterator from day {}", c.start);
            // last() after some steps
            let k = (c.take as i64).min(avail_fwd);
            let after = if c.weeks { let mut it = d.iter_weeks(); for _ in 0..k { it.next(); } it.last() } else { let mut it = d.iter_days(); for _ in 0..k { it.next(); } it.last() };
            ensure_eq!(after.map(conv::unix_day_of), if k < avail_fwd { want } else { None }, "last() after {k} steps from day {}", c.start);
        }
        if c.back && avail_bwd <= 6000 {
            let cnt = if c.weeks { d.iter_weeks().rev().count() } else { d.iter_days().rev().count() };
            ensure_eq!(cnt as i64, avail_bwd, "counted reverse length from day {}", c.start);
            let last = if c.weeks { d.iter_weeks().rev().last() } else { d.iter_days().rev().last() };
            let want = if avail_bwd > 0 { Some(c.start - (avail_bwd - 1) * step) } else { None };
            ensure_eq!(last.map(conv::unix_day_of), want, "last() of a reversed iterator from day {}", c.start);
        }
        Ok(())
    }
}

// ---------------------------------------------------------------------------------------------
/// one step of an iterator history
#[derive(Clone, Copy, Debug, Serialize, Deserialize)]
pub enum ItOp {
    Next,
    NextBack,
    Nth(u64),
    NthBack(u64),
    /// `by_ref().skip(k).next()`
    SkipNext(u64),
    /// `by_ref().take(k).count()`
    TakeCount(u64),
    /// `by_ref().rev().take(k).last()`
    RevTakeLast(u64),
    Len,
}
#[derive(Clone, Debug, Serialize, Deserialize)]
pub struct ItHist {
    pub start: i64,
    pub weeks: bool,
    pub ops: Vec<ItOp>,
}
pub struct IterOps;
impl SubCheck for IterOps {
    type Case = ItHist;
    fn name(&self) -> &'static str {
        "iterator_histories"
    }
    fn rule(&self) -> &'static str {
        "case = (start date, days|weeks, history of up to 12 iterator operations: next, next_back, nth, nth_back, skip+next, take+count, rev+take+last, len); executed on the real iterator and on a cursor model (next yields the cursor and adds the step unless that leaves the range, next_back likewise downward, len = floor((MAX - cursor) / step)); every returned item and length compared after every step; non-trivial = some operation runs into a range limit, or the cursor crosses a year boundary"
    }
    fn strategy(&self) -> Option<BoxedStrategy<ItHist>> {
        let near_end = (0i64..400, any::<bool>()).prop_map(|(d, hi)| if hi { cal::max_day() - d } else { cal::min_day() + d });
        // around 1 January of years next to multiples of 400 / 100 / 4
        let year_edge = (-655i64..=655, proptest::sample::select(vec![400i64, 100, 4, 1]), -1i64..=1, -12i64..=12)
            .prop_map(|(k, m, dy, dd)| (cal::days_from_civil((k * m).clamp(-262_000, 262_000) + dy, 1, 1) + dd).clamp(cal::min_day(), cal::max_day()));
        let start = prop_oneof![3 => near_end, 3 => year_edge, 2 => gen::day()];
        let small = prop_oneof![6 => 0u64..30, 2 => 30u64..800];
        let op = prop_oneof![
            3 => Just(ItOp::Next),
            3 => Just(ItOp::NextBack),
            2 => small.clone().prop_map(ItOp::Nth),
            2 => small.clone().prop_map(ItOp::NthBack),
            2 => small.clone().prop_map(ItOp::SkipNext),
            1 => small.clone().prop_map(ItOp::TakeCount),
            1 => small.prop_map(ItOp::RevTakeLast),
            2 => Just(ItOp::Len),
        ];
        Some((start, any::<bool>(), proptest::collection::vec(op, 1..=12)).prop_map(|(start, weeks, ops)| ItHist { start, weeks, ops }).boxed())
    }
    fn check(&self, c: &ItHist, obs: &mut Obs) -> Result<(), String> {
        let step = if c.weeks { 7 } else { 1 };
        let (lo, hi) = (cal::min_day(), cal::max_day());
        let d = conv::date(c.start);
        // cursor model
        let fwd = |cur: &mut i64| if *cur + step <= hi { let v = *cur; *cur += step; Some(v) } else { None };
        let bwd = |cur: &mut i64| if *cur - step >= lo { let v = *cur; *cur -= step; Some(v) } else { None };
        macro_rules! drive {
            ($it:expr) => {{
                let mut it = $it;
                let mut cur = c.start;
                for (k, op) in c.ops.iter().enumerate() {
                    let before = cur;
                    let (got, exp): (Option<i64>, Option<i64>) = match *op {
                        ItOp::Next => (call("next", || it.next())?.map(conv::unix_day_of), fwd(&mut cur)),
                        ItOp::NextBack => (call("next_back", || it.next_back())?.map(conv::unix_day_of), bwd(&mut cur)),
                        ItOp::Nth(n) => {
                            let mut e = None;
                            for i in 0..=n { e = fwd(&mut cur); if e.is_none() { let _ = i; break; } }
                            (call("nth", || it.nth(n as usize))?.map(conv::unix_day_of), e)
                        }
                        ItOp::NthBack(n) => {
                            let mut e = None;
                            for _ in 0..=n { e = bwd(&mut cur); if e.is_none() { break; } }
                            (call("nth_back", || it.nth_back(n as usize))?.map(conv::unix_day_of), e)
                        }
                        ItOp::SkipNext(n) => {
                            let mut e = None;
                            for _ in 0..=n { e = fwd(&mut cur); if e.is_none() { break; } }
                            (call("skip.next", || it.by_ref().skip(n as usize).next())?.map(conv::unix_day_of), e)
                        }
                        ItOp::TakeCount(n) => {
                            let mut cnt = 0i64;
                            for _ in 0..n { if fwd(&mut cur).is_some() { cnt += 1 } else { break } }
                            (Some(call("take.count", || it.by_ref().take(n as usize).count())? as i64), Some(cnt))
                        }
                        ItOp::RevTakeLast(n) => {
                            let mut e = None;
                            for _ in 0..n { match bwd(&mut cur) { Some(v) => e = Some(v), None => break } }
                            (call("rev.take.last", || it.by_ref().rev().take(n as usize).last())?.map(conv::unix_day_of), e)
                        }
                        ItOp::Len => {
                            let l = call("len", || it.len())? as i64;
                            let (a, b) = it.size_hint();
                            ensure!(b == Some(a) && a as i64 == l, "size_hint ({a}, {b:?}) vs len {l} at step {k}");
                            (Some(l), Some((hi - cur) / step))
                        }
                    };
                    ensure_eq!(got, exp, "step {k} ({op:?}) of the history from day {} (cursor before: {before})", c.start);
                    obs.nt_if(matches!(op, ItOp::Next | ItOp::NextBack | ItOp::Nth(_) | ItOp::NthBack(_) | ItOp::SkipNext(_)) && exp.is_none(), "runs_into_range_limit");
                    obs.nt_if(cal::civil_from_days(before).0 != cal::civil_from_days(cur).0, "crosses_year");
                    obs.label_if(k > 0 && before == cur && !matches!(op, ItOp::Len), "operation_after_exhaustion");
                }
                // the remaining length is exact whatever happened before
                ensure_eq!(it.len() as i64, (hi - cur) / step, "len() after the history from day {}", c.start);
            }};
        }
        if c.weeks { drive!(d.iter_weeks()) } else { drive!(d.iter_days()) }
        Ok(())
    }
}

// ---------------------------------------------------------------------------------------------
pub fn subs() -> Vec<Box<dyn DynSub>> {
    vec![Box::new(DtDur), Box::new(DtPair), Box::new(DateDays), Box::new(DateDur), Box::new(Iter), Box::new(IterOps)]
}

pub fn run(ctx: &Ctx) {
    let n = ctx.n(4_000_000, 180_000_000);
    ctx.run_prop(&DtDur, n);
    ctx.run_prop(&DtPair, n);
    ctx.run_prop(&DateDays, n);
    ctx.run_prop(&DateDur, n);
    ctx.run_prop(&Iter, ctx.n(200_000, 5_000_000));
    ctx.run_prop(&IterOps, ctx.n(400_000, 20_000_000));
    let _ = (NaiveDate::MIN, TimeDelta::zero(), DateTime::<chrono::Utc>::UNIX_EPOCH);
}
