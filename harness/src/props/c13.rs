//! C13 Parsing with a format string inverts formatting with it.
use crate::engine::{Ctx, DynSub, Obs, SubCheck};
use crate::guard::call;
use crate::props::c04::shift;
use crate::props::c07::T;
use crate::props::c12::{chrono_format, fmt_day, fmt_time, V};
use crate::refmodel::inst::Ndt;
use crate::refmodel::strftime::{self as rf, Fix, Num, Tok};
use crate::refmodel::cal;
use crate::{conv, ensure, ensure_eq};
use chrono::{DateTime, FixedOffset, NaiveDate, NaiveDateTime, NaiveTime, Timelike};
use proptest::prelude::*;
use serde::{Deserialize, Serialize};

#[derive(Clone, Debug, Serialize, Deserialize)]
pub struct PCase {
    pub fmt: String,
    pub v: V,
    /// bit i set: perturb (flip case of the i-th letter / widen the i-th white-space run)
    pub perturb: u64,
    pub suffix: Option<String>,
}

fn m() -> BoxedStrategy<&'static str> {
    proptest::sample::select(vec!["", "", "-", "_", "0"]).boxed()
}
fn sep() -> BoxedStrategy<&'static str> {
    proptest::sample::select(vec!["-", "/", ".", ":", " ", " ", "  ", ", ", "\t", "_", "|", " # ", "é", "日"]).boxed()
}
/// year spellings with the year range they can express: 0 any, 1 0..=9999, 2 1970..=2069
fn year_piece() -> BoxedStrategy<(String, u8)> {
    prop_oneof![
        5 => m().prop_map(|a| (format!("%{a}Y"), 0u8)),
        2 => proptest::sample::select(vec!["%C%y", "%0C%0y", "%C%0y"]).prop_map(|s| (s.to_string(), 1u8)),
        1 => (m(), sep(), m()).prop_map(|(a, s, b)| (format!("%{a}C{s}%{b}y"), 1u8)),
        2 => m().prop_map(|a| (format!("%{a}y"), 2u8)),
    ]
    .boxed()
}
fn month_piece() -> BoxedStrategy<String> {
    prop_oneof![3 => m().prop_map(|a| format!("%{a}m")), 1 => Just("%b".to_string()), 1 => Just("%B".to_string()), 1 => Just("%h".to_string())].boxed()
}
fn day_piece() -> BoxedStrategy<String> {
    prop_oneof![3 => m().prop_map(|a| format!("%{a}d")), 1 => m().prop_map(|a| format!("%{a}e"))].boxed()
}
fn wd_piece() -> BoxedStrategy<String> {
    proptest::sample::select(vec!["%u", "%w", "%a", "%A", "%-u", "%0w"]).prop_map(String::from).boxed()
}
/// (date format, year class, iso_year_class) ; class as in year_piece, iso class applies to %g
fn date_format() -> BoxedStrategy<(String, u8, u8)> {
    let cal3 = (year_piece(), month_piece(), day_piece(), sep(), sep(), 0u8..6, prop_oneof![3 => Just(String::new()), 1 => (wd_piece(), sep()).prop_map(|(w, s)| format!("{w}{s}")), 1 => sep().prop_map(|s| format!("%q{s}"))])
        .prop_map(|((y, yc), mo, d, s1, s2, perm, pre)| {
            let p = match perm { 0 => [&y, &mo, &d], 1 => [&y, &d, &mo], 2 => [&mo, &d, &y], 3 => [&mo, &y, &d], 4 => [&d, &mo, &y], _ => [&d, &y, &mo] };
            (format!("{pre}{}{s1}{}{s2}{}", p[0], p[1], p[2]), yc, 0u8)
        });
    let comp = proptest::sample::select(vec![("%F", 0u8), ("%D", 2), ("%x", 2), ("%v", 0), ("%A, %F", 0), ("%a %D", 2)]).prop_map(|(s, c)| (s.to_string(), c, 0u8));
    let full_year = prop_oneof![3 => m().prop_map(|a| (format!("%{a}Y"), 0u8)), 1 => Just(("%C%y".to_string(), 1u8))];
    let ord = (full_year.clone(), sep(), m(), any::<bool>()).prop_map(|((y, yc), s, a, rev)| if rev { (format!("%{a}j{s}{y}"), yc, 0u8) } else { (format!("{y}{s}%{a}j"), yc, 0u8) });
    let iso = (prop_oneof![3 => m().prop_map(|a| (format!("%{a}G"), 0u8)), 1 => m().prop_map(|a| (format!("%{a}g"), 2u8))], sep(), m(), sep(), wd_piece())
        .prop_map(|((g, gc), s1, a, s2, w)| (format!("{g}{s1}%{a}V{s2}{w}"), 0u8, gc));
    let week = (full_year, sep(), m(), proptest::sample::select(vec!["U", "W"]), sep(), wd_piece()).prop_map(|((y, yc), s1, a, uw, s2, w)| (format!("{y}{s1}%{a}{uw}{s2}{w}"), yc, 0u8));
    // adjacency without separators where it is unambiguous: names next to names or to numbers,
    // fixed-width zero-padded numbers next to each other
    let wn = proptest::sample::select(vec!["%a", "%A"]);
    let mn = proptest::sample::select(vec!["%b", "%B", "%h"]);
    let adjacent = (wn, mn, sep(), sep(), 0u8..7, m()).prop_map(|(w, mo, s1, s2, k, a)| match k {
        0 => (format!("{w}{mo}{s1}%{a}d{s2}%Y"), 0u8, 0u8),
        1 => (format!("{mo}{w}{s1}%{a}e{s2}%Y"), 0, 0),
        2 => (format!("%d{mo}%Y"), 0, 0),
        3 => (format!("{mo}%d{s1}%Y{s2}{w}"), 0, 0),
        4 => (format!("%Y{mo}%d{w}"), 0, 0),
        5 => ("%Y%m%d".to_string(), 1, 0),
        _ => (format!("%y%m%d{w}"), 2, 0),
    });
    // a complete date in one form plus redundant fields of another form (they must merely agree)
    let redundant = proptest::sample::select(vec![
        "%Y-%m-%d #%V", "%Y-%m-%d %G-%V-%u", "%Y-%j (%G-%V-%u)", "%F %G %V %a", "%Y %U %w | %G-%V", "%d/%m/%Y %A %W/%q", "%G-%V-%u = %Y-%m-%d", "%Y-%m-%d %j %U/%W/%V",
        "%G %V %u %j",
    ]).prop_map(|s| (s.to_string(), 0u8, 0u8));
    prop_oneof![5 => cal3, 2 => comp, 2 => ord, 2 => iso, 2 => week, 3 => adjacent, 2 => redundant].boxed()
}
fn time_format() -> BoxedStrategy<String> {
    let frac = prop_oneof![3 => Just(""), 1 => Just("%.f"), 1 => Just("%.3f"), 1 => Just("%.6f"), 1 => Just("%.9f"), 1 => Just(".%f"), 1 => Just(".%-f"), 1 => Just(",%_f")];
    let frac_nodot = proptest::sample::select(vec!["%3f", "%6f", "%9f"]);
    let secs = prop_oneof![
        1 => Just(String::new()),
        4 => (proptest::sample::select(vec![":", ".", " ", "-"]), m(), frac).prop_map(|(s, a, f)| format!("{s}%{a}S{f}")),
        1 => (proptest::sample::select(vec![":", " "]), proptest::sample::select(vec!["%S", "%0S"]), frac_nodot).prop_map(|(s, sec, f)| format!("{s}{sec}{f}")),
    ];
    let h24 = (proptest::sample::select(vec!["H", "k"]), m(), proptest::sample::select(vec![":", ".", " ", "h "]), m(), secs.clone()).prop_map(|(h, a, s, b, sec)| format!("%{a}{h}{s}%{b}M{sec}").replace("h ", "| "));
    let h12 = (proptest::sample::select(vec!["I", "l"]), m(), proptest::sample::select(vec![":", ".", " "]), m(), secs, proptest::sample::select(vec!["%p", "%P"]), proptest::sample::select(vec![" ", "", "  ", "_"]), any::<bool>())
        .prop_map(|(h, a, s, b, sec, ap, aps, front)| if front { format!("{ap} %{a}{h}{s}%{b}M{sec}") } else { format!("%{a}{h}{s}%{b}M{sec}{aps}{ap}") });
    let comp = proptest::sample::select(vec!["%T", "%X", "%R", "%r", "%T%.f", "%T%.3f", "%X%.9f", "%R:%S%.6f", "%T%9f", "%H%M%S", "%H%M", "%H%M%S%3f", "%I%M%S%p", "%p%I%M", "%I%p:%M", "%H%M%S%.f", "%l%P.%M"]).prop_map(String::from);
    prop_oneof![4 => h24, 3 => h12, 2 => comp].boxed()
}

/// (kind 0 date | 1 time | 2 naive date-time | 3 zone-aware, format, year class, iso year class)
fn family() -> BoxedStrategy<(u8, String, u8, u8)> {
    let dt_sep = proptest::sample::select(vec![" ", "|", "  ", " @ ", "_", ", "]);
    let d = date_format().prop_map(|(f, y, g)| (0u8, f, y, g));
    let t = time_format().prop_map(|f| (1u8, f, 0u8, 0u8));
    let ndt = prop_oneof![
        6 => (date_format(), dt_sep.clone(), time_format(), any::<bool>()).prop_map(|((d, y, g), s, t, rev)| (2u8, if rev { format!("{t}{s}{d}") } else { format!("{d}{s}{t}") }, y, g)),
        1 => Just((2u8, "%c".to_string(), 0u8, 0u8)),
        1 => proptest::sample::select(vec!["%s", "%-s", "%s%.f", "%s.%f"]).prop_map(|s| (2u8, s.to_string(), 3u8, 0u8)),
        1 => proptest::sample::select(vec!["%F %T %s", "%s = %Y-%m-%d %H:%M:%S%.f", "%T%.6f %s %F"]).prop_map(|s| (2u8, s.to_string(), 3u8, 0u8)),
    ];
    let zone = proptest::sample::select(vec!["%z", "%:z", " %z", " %:z", "  %z", "|%:z"]);
    let zdt = prop_oneof![
        6 => (date_format(), dt_sep, time_format(), zone.clone()).prop_map(|((d, y, g), s, t, z)| (3u8, format!("{d}{s}{t}{z}"), y, g)),
        1 => Just((3u8, "%+".to_string(), 0u8, 0u8)),
        1 => (proptest::sample::select(vec!["%s %z", "%s%:z", "%:z %s"])).prop_map(|s| (3u8, s.to_string(), 3u8, 0u8)),
        1 => (proptest::sample::select(vec!["%c %z", "%Z %c %z"])).prop_map(|s| (3u8, s.to_string(), 0u8, 0u8)),
        // a timestamp next to the full calendar date, clock time (with seconds) and offset: redundant but consistent
        1 => (proptest::sample::select(vec!["%Y-%m-%d %H:%M:%S%.f %z = %s", "%s|%F %T %:z", "%F %T%.3f %z %s", "%:z %s %d/%m/%Y %I:%M:%S %p", "%F %T%.9f%:z (%s)", "%s %Y %j %T %z"])).prop_map(|s| (3u8, s.to_string(), 3u8, 0u8)),
    ];
    prop_oneof![2 => d, 2 => t, 3 => ndt, 4 => zdt].boxed()
}

/// move `day` into the year range the format's year spelling can express
fn fit_year(day: i64, class: u8, iso_class: u8) -> i64 {
    let (y, mo, d) = cal::civil_from_days(day);
    let ny = match class {
        1 => y.rem_euclid(10_000),
        2 => 1970 + y.rem_euclid(100),
        3 => 1971 + y.rem_euclid(8000), // non-negative timestamps whatever the offset
        _ => y,
    };
    let mut z = cal::days_from_civil(ny, mo, d.min(cal::days_in_month(ny, mo)));
    if iso_class == 2 {
        let (iy, _) = cal::iso_week(z);
        let target = 1970 + iy.rem_euclid(100);
        // shift by whole 400-year-cycle-safe amount: move by years keeping the ISO week structure approximately, then fix up
        let (y2, m2, d2) = cal::civil_from_days(z);
        let ny2 = y2 + (target - iy);
        z = cal::days_from_civil(ny2, m2, d2.min(cal::days_in_month(ny2, m2)));
        let (iy2, _) = cal::iso_week(z);
        if !(1970..=2069).contains(&iy2) {
            z = cal::days_from_civil(2000, 6, 15);
        }
    }
    z
}

fn case() -> BoxedStrategy<PCase> {
    (family(), fmt_day(), fmt_time(), crate::gen::offset_minutes(), any::<u64>(), prop_oneof![2 => Just(None), 1 => "[|][ -~]{0,6}".prop_map(Some), 1 => Just(Some("|é 12:00 +01".to_string()))], prop::bool::weighted(0.5))
        .prop_map(|((kind, fmt, yc, gc), day, t, off, perturb, suffix, do_perturb)| {
            let day = fit_year(day.clamp(cal::min_day() + 400, cal::max_day() - 400), yc, gc);
            let has_ts = fmt.contains("%s") || fmt.contains("%-s");
            // a bare timestamp cannot carry a leap second; next to a printed second field it can
            let prints_second = fmt.contains("%S") || fmt.contains("%T");
            let t = if has_ts && !prints_second { T { secs: t.secs, frac: t.frac % 1_000_000_000 } } else { T { secs: t.secs, frac: if t.secs % 60 == 59 { t.frac } else { t.frac % 1_000_000_000 } } };
            let off = if kind == 3 { off } else { 0 };
            PCase { fmt, v: V { kind, day, t, off }, perturb: if do_perturb { perturb } else { 0 }, suffix }
        })
        .boxed()
}

/// what the format prints of the time: (seconds printed, fraction digits)
fn precision(toks: &[Tok]) -> (bool, u32) {
    let mut secs = false;
    let mut digits = 0;
    for t in toks {
        match t {
            Tok::Num(Num::Second, _) | Tok::Num(Num::Timestamp, _) | Tok::Fix(Fix::Rfc3339) => secs = true,
            _ => {}
        }
        match t {
            Tok::Num(Num::Nano, _) | Tok::Fix(Fix::FracAuto) | Tok::Fix(Fix::Frac9) | Tok::Fix(Fix::Frac9NoDot) | Tok::Fix(Fix::Rfc3339) => digits = digits.max(9),
            Tok::Fix(Fix::Frac6) | Tok::Fix(Fix::Frac6NoDot) => digits = digits.max(6),
            Tok::Fix(Fix::Frac3) | Tok::Fix(Fix::Frac3NoDot) => digits = digits.max(3),
            _ => {}
        }
    }
    (secs, digits)
}

fn perturb_text(s: &str, bits: u64) -> String {
    let mut out = String::new();
    let mut k = 0u32;
    let mut prev_ws = false;
    for ch in s.chars() {
        if ch.is_ascii_alphabetic() {
            let flip = bits >> (k % 64) & 1 == 1;
            k += 1;
            out.push(if flip { if ch.is_ascii_uppercase() { ch.to_ascii_lowercase() } else { ch.to_ascii_uppercase() } } else { ch });
            prev_ws = false;
        } else if ch.is_whitespace() {
            out.push(ch);
            if !prev_ws {
                let w = bits >> (k % 64) & 3;
                k += 2;
                // surplus white space: spaces, tabs, and now and then other white-space characters
                let exotic = ['\u{b}', '\u{c}', '\n', '\u{a0}', '\u{85}', '\u{2003}', '\u{3000}', '\r'][(bits >> ((k + 7) % 61) & 7) as usize];
                for i in 0..w {
                    out.push(if w == 3 { if i == 1 && bits >> ((k + 11) % 59) & 3 == 0 { exotic } else { '\t' } } else { ' ' });
                }
            }
            prev_ws = true;
        } else {
            out.push(ch);
            prev_ws = false;
        }
    }
    out
}

pub struct Invert;
impl SubCheck for Invert {
    type Case = PCase;
    fn name(&self) -> &'static str {
        "format_then_parse"
    }
    fn rule(&self) -> &'static str {
        "case = (unambiguous format string from the generated family, value the format can express, case/white-space perturbation, optional suffix for parse_and_remainder); T::parse_from_str(format(v)) == v truncated to the printed precision; non-trivial = signed or 5-digit year, leap second, 12 AM/PM hour, a non-default padding modifier, perturbed text, week-0/53 date, or a suffix"
    }
    fn strategy(&self) -> Option<BoxedStrategy<PCase>> {
        Some(case())
    }
    fn check(&self, c: &PCase, obs: &mut Obs) -> Result<(), String> {
        let v = &c.v;
        let toks = rf::tokenize(&c.fmt).map_err(|_| format!("harness: family produced an invalid format {:?}", c.fmt))?;
        let (has_secs, digits) = precision(&toks);
        let f = cal::fields(v.day);
        obs.nt_if(v.kind != 1 && (f.year < 0 || f.year >= 10_000), "signed_or_long_year");
        obs.nt_if(v.kind != 0 && v.t.leap() && has_secs, "leap_second");
        obs.nt_if(v.kind != 0 && v.t.secs / 3600 % 12 == 0 && (c.fmt.contains('I') || c.fmt.contains('l') || c.fmt.contains("%r")), "twelve_oclock_12h");
        obs.nt_if(c.fmt.contains("%-") || c.fmt.contains("%_") || c.fmt.contains("%0"), "padding_modifier");
        obs.nt_if(c.suffix.is_some(), "remainder");
        obs.nt_if(v.kind != 1 && (cal::week_from(v.day, 6) % 53 == 0 || cal::week_from(v.day, 0) % 53 == 0 || f.iso_year != f.year), "week_0_or_53");
        obs.label(["kind_date", "kind_time", "kind_naive_datetime", "kind_zoned"][v.kind as usize]);
        // expected value: truncated to what the format prints
        let sub = v.t.frac % 1_000_000_000;
        let keep = 10u32.pow(9 - digits);
        let et = if has_secs { T { secs: v.t.secs, frac: sub - sub % keep + if v.t.leap() { 1_000_000_000 } else { 0 } } } else { T { secs: v.t.secs - v.t.secs % 60, frac: 0 } };
        // print
        let text = chrono_format(&c.fmt, v)?.map_err(|_| format!("format({:?}) failed for {v:?}", c.fmt))?;
        let perturbed = if c.perturb != 0 { perturb_text(&text, c.perturb) } else { text.clone() };
        obs.nt_if(perturbed != text, "perturbed_text");
        let (input, suffix) = match &c.suffix {
            Some(s) => (format!("{perturbed}{s}"), s.as_str()),
            None => (perturbed.clone(), ""),
        };
        let fmt = c.fmt.as_str();
        let what = format!("parse({input:?}, {fmt:?})");
        macro_rules! run {
            ($ty:ty, $exp:expr, $cmp:expr) => {{
                if c.suffix.is_some() {
                    let (got, rest) = call("parse_and_remainder", || <$ty>::parse_and_remainder(&input, fmt))?.map_err(|e| format!("{what} via parse_and_remainder = Err({e:?}), expected {:?}", $exp))?;
                    ensure_eq!($cmp(&got), $exp, "{what} value");
                    ensure_eq!(rest, suffix, "{what} remainder");
                } else {
                    let got = call("parse_from_str", || <$ty>::parse_from_str(&input, fmt))?.map_err(|e| format!("{what} = Err({e:?}), expected {:?}", $exp))?;
                    ensure_eq!($cmp(&got), $exp, "{what}");
                }
            }};
        }
        // item-level route: borrowed and owned items read the same fields and leave the same remainder
        {
            use chrono::format::{Item, Parsed, StrftimeItems};
            let borrowed: Vec<Item> = StrftimeItems::new(fmt).collect();
            let owned: Vec<Item<'static>> = borrowed.iter().cloned().map(Item::to_owned).collect();
            let (mut p1, mut p2) = (Parsed::new(), Parsed::new());
            let r1 = call("format::parse_and_remainder", || chrono::format::parse_and_remainder(&mut p1, &input, borrowed.iter()).map(|r| r.to_string()))?;
            let r2 = call("format::parse_and_remainder (owned items)", || chrono::format::parse_and_remainder(&mut p2, &input, owned.iter()).map(|r| r.to_string()))?;
            ensure_eq!(r2, r1, "{what}: remainder through owned items vs borrowed items");
            ensure_eq!(p2, p1, "{what}: fields through owned items vs borrowed items");
            ensure_eq!(r1.as_deref().ok(), Some(suffix), "{what}: remainder of the item-level parser");
        }
        match v.kind {
            0 => run!(NaiveDate, v.day, |d: &NaiveDate| conv::unix_day_of(*d)),
            1 => run!(NaiveTime, et, |t: &NaiveTime| T::of(t)),
            2 => run!(NaiveDateTime, (v.day, et), |n: &NaiveDateTime| (conv::unix_day_of(n.date()), T::of(&n.time()))),
            _ => {
                let eu = shift(Ndt { day: v.day, secs: et.secs, frac: et.frac }, -(v.off as i64));
                run!(DateTime<FixedOffset>, ((eu.day, eu.secs, eu.frac), v.off), |d: &DateTime<FixedOffset>| {
                    let n = d.naive_utc();
                    ((conv::unix_day_of(n.date()), n.num_seconds_from_midnight(), n.nanosecond()), d.offset().local_minus_utc())
                });
                // the zone-generic reader: the same instant in a zone that has the parsed offset
                if c.suffix.is_none() {
                    use chrono::TimeZone;
                    let fo = FixedOffset::east_opt(v.off).ok_or("harness: offset")?;
                    #[allow(deprecated)]
                    let z = call("TimeZone::datetime_from_str", || fo.datetime_from_str(&input, fmt))?.map_err(|e| format!("{what} via FixedOffset::datetime_from_str = Err({e:?})"))?;
                    let n = z.naive_utc();
                    ensure_eq!(((conv::unix_day_of(n.date()), n.num_seconds_from_midnight(), n.nanosecond()), z.offset().local_minus_utc()), ((eu.day, eu.secs, eu.frac), v.off), "{what} via TimeZone::datetime_from_str");
                }
            }
        }
        Ok(())
    }
}

// ---------------------------------------------------------------------------------------------
pub struct Special;
impl SubCheck for Special {
    type Case = (u8, i64, T, i32);
    fn name(&self) -> &'static str {
        "read_only_and_print_only"
    }
    fn rule(&self) -> &'static str {
        "case = (selector, date, time, offset): %#z is read-only and must read +HH, +HHMM and +HH:MM; %::z, %:::z and %Z are print-only and are only required not to panic when used for reading; non-trivial = every case"
    }
    fn strategy(&self) -> Option<BoxedStrategy<Self::Case>> {
        Some((0u8..6, crate::props::c10::day_0_9999(), crate::props::c09::text_time(), crate::gen::offset_minutes()).boxed())
    }
    fn check(&self, &(k, day, t, off): &Self::Case, obs: &mut Obs) -> Result<(), String> {
        obs.nt("special");
        let t = T { secs: t.secs, frac: 0 };
        let wall = Ndt { day, secs: t.secs, frac: 0 };
        let sign = if off < 0 { '-' } else { '+' };
        let (h, mi) = (off.abs() / 3600, off.abs() / 60 % 60);
        let base = format!("{} {}", crate::refmodel::fmt::date(day), crate::refmodel::fmt::time(t.secs, 0));
        match k {
            0..=2 => {
                // %#z reads hours only, hours+minutes, hours:minutes
                let (txt, eoff) = match k {
                    0 => (format!("{sign}{h:02}"), (off / 3600) * 3600),
                    1 => (format!("{sign}{h:02}{mi:02}"), off),
                    _ => (format!("{sign}{h:02}:{mi:02}"), off),
                };
                let input = format!("{base} {txt}");
                let got = call("parse_from_str %#z", || DateTime::<FixedOffset>::parse_from_str(&input, "%Y-%m-%d %H:%M:%S %#z"))?.map_err(|e| format!("parse({input:?}, %#z) = Err({e:?})"))?;
                let eu = shift(wall, -(eoff as i64));
                ensure_eq!((conv::unix_day_of(got.naive_utc().date()), got.naive_utc().num_seconds_from_midnight(), got.offset().local_minus_utc()), (eu.day, eu.secs, eoff), "parse({input:?}, %#z)");
            }
            _ => {
                let f = ["%Y-%m-%d %H:%M:%S %::z", "%Y-%m-%d %H:%M:%S %:::z", "%Y-%m-%d %H:%M:%S %Z"][(k - 3) as usize];
                let fo = FixedOffset::east_opt(off).ok_or("harness: offset")?;
                let u = shift(wall, -(off as i64));
                let dt = chrono::TimeZone::from_utc_datetime(&fo, &conv::ndt(u));
                let text = call("format", || dt.format(f).to_string())?;
                let _ = call("parse_from_str (print-only specifier)", || DateTime::<FixedOffset>::parse_from_str(&text, f))?;
                let _ = call("parse_from_str (print-only specifier)", || NaiveDateTime::parse_from_str(&text, f))?;
            }
        }
        let _ = ensure_ok();
        Ok(())
    }
}
fn ensure_ok() -> Result<(), String> {
    ensure!(true, "");
    Ok(())
}

pub fn subs() -> Vec<Box<dyn DynSub>> {
    vec![Box::new(Invert), Box::new(Special)]
}

pub fn run(ctx: &Ctx) {
    ctx.run_prop(&Invert, ctx.n(5_000_000, 200_000_000));
    ctx.run_prop(&Special, ctx.n(100_000, 2_000_000));
}
