//! C06 Durations are exact signed nanosecond counts within a closed range.
use crate::engine::{Ctx, DynSub, Obs, SubCheck};
use crate::guard::{call, expect_panic, guard};
use crate::refmodel::inst::{td_in_range, NS, TD_MAX_NS};
use crate::{ensure, ensure_eq};
use chrono::TimeDelta;
use proptest::prelude::*;
use serde::{Deserialize, Serialize};

/// model duration: floor seconds + nanos in [0, 1e9)
#[derive(Clone, Copy, Debug, Serialize, Deserialize, PartialEq, Eq)]
pub struct D {
    pub s: i64,
    pub n: u32,
}
impl D {
    pub fn of(ns: i128) -> D {
        D { s: ns.div_euclid(NS) as i64, n: ns.rem_euclid(NS) as u32 }
    }
    pub fn ns(self) -> i128 {
        self.s as i128 * NS + self.n as i128
    }
    pub fn td(self) -> Result<TimeDelta, String> {
        TimeDelta::new(self.s, self.n).ok_or_else(|| format!("TimeDelta::new({}, {}) = None for an in-range value", self.s, self.n))
    }
}

pub fn ns_of(d: &TimeDelta) -> i128 {
    d.num_seconds() as i128 * NS + d.subsec_nanos() as i128
}

/// range invariant + model value of a returned duration
fn read(what: &str, d: &TimeDelta) -> Result<i128, String> {
    let v = ns_of(d);
    ensure!(td_in_range(v), "{what} returned a duration outside the closed range: {v} ns ({d:?})");
    let sn = d.subsec_nanos() as i128;
    ensure!(sn.abs() < NS && (sn == 0 || (sn < 0) == (v < 0)), "{what}: subsec_nanos {sn} has the wrong sign/size for {v}");
    Ok(v)
}

/// in-range model duration, edge-biased
pub fn dur() -> BoxedStrategy<D> {
    let m = TD_MAX_NS;
    prop_oneof![
        3 => (-m..=m),
        3 => (0u32..94, any::<u128>(), any::<bool>()).prop_map(move |(b, v, neg)| {
            let x = if b == 0 { 0 } else { (v & ((1u128 << b) - 1)) as i128 };
            let x = x.min(m);
            if neg { -x } else { x }
        }),
        3 => (proptest::sample::select(vec![0i128, NS, -NS, m, -m, 86_400 * NS, -86_400 * NS, m / 2, -m / 2, i64::MAX as i128, i64::MIN as i128, (i64::MAX as i128) * 1000, (i64::MIN as i128) * 1000]),
              -3_000_000_000i128..=3_000_000_000).prop_map(move |(a, d)| (a + d).clamp(-m, m)),
        1 => (-10_000_000_000i128..=10_000_000_000),
        1 => (-(1i128 << 40)..(1i128 << 40)).prop_map(|s| s * NS),
        // the ends of the 64-bit windows of the nanosecond and microsecond accessors, to the nanosecond
        2 => (proptest::sample::select(vec![i64::MAX as i128, i64::MIN as i128, (i64::MAX as i128) * 1000, (i64::MIN as i128) * 1000, (i64::MAX as i128) * 1000 + 999, m, -m]),
              prop_oneof![2 => -1500i128..=1500, 1 => proptest::sample::select(vec![0i128, 1, -1, 999, -999, 1000, -1000])]).prop_map(move |(a, d)| (a + d).clamp(-m, m)),
    ]
    .prop_map(D::of)
    .boxed()
}

fn classify(v: i128, obs: &mut Obs) {
    obs.nt_if(TD_MAX_NS - v.abs() < (1 << 32), "near_limit");
    obs.nt_if(v < 0 && v % NS != 0, "negative_with_subsec");
    obs.label_if(v == 0, "zero");
}

// ---------------------------------------------------------------------------------------------
pub struct New;
impl SubCheck for New {
    type Case = (i64, u32);
    fn name(&self) -> &'static str {
        "new"
    }
    fn rule(&self) -> &'static str {
        "case = raw (secs, nanos) of TimeDelta::new; non-trivial = value within 2^32 ns of a limit (inside or outside), nanos in {1e9-1, 1e9, u32::MAX}, or negative secs with non-zero nanos"
    }
    fn strategy(&self) -> Option<BoxedStrategy<Self::Case>> {
        let ms = (TD_MAX_NS / NS) as i64;
        let secs = prop_oneof![
            2 => any::<i64>(),
            3 => (-3i64..=3).prop_map(move |d| ms + d),
            3 => (-3i64..=3).prop_map(move |d| -ms + d),
            2 => -100i64..100,
            1 => proptest::sample::select(vec![i64::MIN, i64::MAX]),
        ];
        let nanos = prop_oneof![
            3 => 0u32..1_000_000_000,
            3 => proptest::sample::select(vec![0u32, 1, 192_999_999, 193_000_000, 193_000_001, 806_999_999, 807_000_000, 807_000_001, 999_999_999, 1_000_000_000, 1_000_000_001, u32::MAX]),
            1 => any::<u32>(),
        ];
        Some((secs, nanos).boxed())
    }
    fn check(&self, &(s, n): &Self::Case, obs: &mut Obs) -> Result<(), String> {
        let v = s as i128 * NS + n as i128;
        let ok = n < 1_000_000_000 && td_in_range(v);
        obs.nt_if((TD_MAX_NS - v.abs()).abs() < (1 << 32), "near_limit");
        obs.nt_if(n >= 999_999_999, "nanos_edge");
        obs.nt_if(s < 0 && n > 0 && ok, "negative_with_subsec");
        let got = call("TimeDelta::new", || TimeDelta::new(s, n))?;
        match got {
            Some(d) => {
                ensure!(ok, "TimeDelta::new({s}, {n}) accepted an invalid/out-of-range pair");
                ensure_eq!(read("new", &d)?, v, "TimeDelta::new({s}, {n}) value");
            }
            None => ensure!(!ok, "TimeDelta::new({s}, {n}) refused an in-range value"),
        }
        Ok(())
    }
}

// ---------------------------------------------------------------------------------------------
pub struct Unit;
const UNITS: [(&str, i128); 8] = [
    ("weeks", 604_800 * NS),
    ("days", 86_400 * NS),
    ("hours", 3600 * NS),
    ("minutes", 60 * NS),
    ("seconds", NS),
    ("milliseconds", 1_000_000),
    ("microseconds", 1000),
    ("nanoseconds", 1),
];
impl SubCheck for Unit {
    type Case = (u8, i64);
    fn name(&self) -> &'static str {
        "unit_ctor"
    }
    fn rule(&self) -> &'static str {
        "case = (unit 0..8 = weeks..nanoseconds, i64 count); non-trivial = count within 3 of the largest accepted magnitude for the unit, an i64 extreme, or negative"
    }
    fn strategy(&self) -> Option<BoxedStrategy<Self::Case>> {
        Some(
            (0u8..8)
                .prop_flat_map(|u| {
                    let lim = (TD_MAX_NS / UNITS[u as usize].1).min(i64::MAX as i128) as i64;
                    (Just(u), crate::gen::i64_edges(vec![lim, -lim, 0]))
                })
                .boxed(),
        )
    }
    fn check(&self, &(u, v): &Self::Case, obs: &mut Obs) -> Result<(), String> {
        let (name, mult) = UNITS[u as usize];
        let exact = v as i128 * mult;
        let ok = td_in_range(exact);
        let lim = TD_MAX_NS / mult;
        obs.nt_if((lim - (v as i128).abs()).abs() <= 3, "at_unit_limit");
        obs.nt_if(v == i64::MIN || v == i64::MAX, "i64_extreme");
        obs.nt_if(v < 0, "negative");
        let tr: Option<TimeDelta> = match u {
            0 => call("try_weeks", || TimeDelta::try_weeks(v))?,
            1 => call("try_days", || TimeDelta::try_days(v))?,
            2 => call("try_hours", || TimeDelta::try_hours(v))?,
            3 => call("try_minutes", || TimeDelta::try_minutes(v))?,
            4 => call("try_seconds", || TimeDelta::try_seconds(v))?,
            5 => call("try_milliseconds", || TimeDelta::try_milliseconds(v))?,
            6 => Some(call("microseconds", || TimeDelta::microseconds(v))?),
            _ => Some(call("nanoseconds", || TimeDelta::nanoseconds(v))?),
        };
        match tr {
            Some(d) => {
                ensure!(ok, "{name}({v}) accepted an out-of-range count");
                ensure_eq!(read(name, &d)?, exact, "{name}({v}) value");
            }
            None => ensure!(!ok, "try_{name}({v}) refused an in-range count"),
        }
        // panicking forms agree with the checked ones
        if u < 6 {
            let p = guard(|| match u {
                0 => TimeDelta::weeks(v),
                1 => TimeDelta::days(v),
                2 => TimeDelta::hours(v),
                3 => TimeDelta::minutes(v),
                4 => TimeDelta::seconds(v),
                _ => TimeDelta::milliseconds(v),
            });
            match (p, tr) {
                (Ok(d), Some(t)) => ensure_eq!(d, t, "{name}({v}) vs try_{name}"),
                (Err(_), None) => {}
                (Ok(d), None) => return Err(format!("{name}({v}) returned {d:?} where try_{name} refuses")),
                (Err(m), Some(_)) => return Err(format!("{name}({v}) panicked ({m}) where try_{name} succeeds")),
            }
        }
        Ok(())
    }
}

// ---------------------------------------------------------------------------------------------
pub struct Unary;
fn parse_display(s: &str) -> Option<i128> {
    // [-]P0D  |  [-]PT<secs>[.<frac>]S  : exact decimal number of seconds
    let (neg, rest) = match s.strip_prefix('-') {
        Some(r) => (true, r),
        None => (false, s),
    };
    if rest == "P0D" {
        return Some(0);
    }
    let body = rest.strip_prefix("PT")?.strip_suffix('S')?;
    let (ip, fp) = match body.split_once('.') {
        Some((i, f)) => (i, f),
        None => (body, ""),
    };
    if ip.is_empty() || !ip.bytes().all(|b| b.is_ascii_digit()) || !fp.bytes().all(|b| b.is_ascii_digit()) || fp.len() > 9 {
        return None;
    }
    if body.contains('.') && fp.is_empty() {
        return None;
    }
    let i: i128 = ip.parse().ok()?;
    let mut f: i128 = if fp.is_empty() { 0 } else { fp.parse().ok()? };
    for _ in fp.len()..9 {
        f *= 10;
    }
    let v = i * NS + f;
    Some(if neg { -v } else { v })
}
impl SubCheck for Unary {
    type Case = D;
    fn name(&self) -> &'static str {
        "unary"
    }
    fn rule(&self) -> &'static str {
        "case = one in-range duration; accessors, neg, abs, is_zero, to_std, Display checked against i128; non-trivial = within 2^32 ns of a limit, or negative with a non-zero sub-second part"
    }
    fn strategy(&self) -> Option<BoxedStrategy<D>> {
        Some(dur())
    }
    fn check(&self, c: &D, obs: &mut Obs) -> Result<(), String> {
        let v = c.ns();
        classify(v, obs);
        let d = c.td()?;
        ensure_eq!(read("new", &d)?, v, "read-back of {c:?}");
        let t = |unit: i128| (v / unit) as i64; // i128 division truncates toward zero
        ensure_eq!(d.num_weeks(), t(604_800 * NS), "num_weeks of {v}");
        ensure_eq!(d.num_days(), t(86_400 * NS), "num_days of {v}");
        ensure_eq!(d.num_hours(), t(3600 * NS), "num_hours of {v}");
        ensure_eq!(d.num_minutes(), t(60 * NS), "num_minutes of {v}");
        ensure_eq!(d.num_seconds(), t(NS), "num_seconds of {v}");
        ensure_eq!(d.num_milliseconds(), t(1_000_000), "num_milliseconds of {v}");
        let us = v / 1000;
        ensure_eq!(d.num_microseconds(), i64::try_from(us).ok(), "num_microseconds of {v}");
        ensure_eq!(d.num_nanoseconds(), i64::try_from(v).ok(), "num_nanoseconds of {v}");
        obs.label_if(i64::try_from(v).is_err(), "beyond_i64_ns");
        obs.label_if(i64::try_from(us).is_err(), "beyond_i64_us");
        ensure_eq!(d.subsec_nanos() as i128, v % NS, "subsec_nanos of {v}");
        ensure_eq!(d.subsec_micros() as i128, (v % NS) / 1000, "subsec_micros of {v}");
        ensure_eq!(d.subsec_millis() as i128, (v % NS) / 1_000_000, "subsec_millis of {v}");
        ensure_eq!(d.is_zero(), v == 0, "is_zero of {v}");
        let n = call("neg", || -d)?;
        ensure_eq!(read("neg", &n)?, -v, "neg of {v}");
        let a = call("abs", || d.abs())?;
        ensure_eq!(read("abs", &a)?, v.abs(), "abs of {v}");
        // std conversion
        match call("to_std", || d.to_std())? {
            Ok(sd) => {
                ensure!(v >= 0, "to_std of negative {v} succeeded");
                ensure_eq!(sd.as_nanos() as i128, v, "to_std of {v}");
                let back = call("from_std", || TimeDelta::from_std(sd))?.map_err(|_| format!("from_std refused to_std({v})"))?;
                ensure_eq!(back, d, "from_std(to_std) of {v}");
            }
            Err(_) => ensure!(v < 0, "to_std refused non-negative {v}"),
        }
        // text form = exact decimal seconds
        let s = call("Display", || d.to_string())?;
        let p = parse_display(&s).ok_or_else(|| format!("Display of {v} ns is not an exact decimal seconds form: {s:?}"))?;
        ensure_eq!(p, v, "Display of {v} ns = {s:?} read back");
        // whatever the format specification asks for, the number stays exact
        for (spec, t) in [("{:.0}", format!("{d:.0}")), ("{:.3}", format!("{d:.3}")), ("{:+.2}", format!("{d:+.2}")), ("{:30}", format!("{d:30}")), ("{:<5.1}", format!("{d:<5.1}"))] {
            let q = parse_display(t.trim()).ok_or_else(|| format!("Display of {v} ns with {spec} is not an exact decimal seconds form: {t:?}"))?;
            ensure_eq!(q, v, "Display of {v} ns with {spec} = {t:?} read back");
        }
        // float view within tolerance (documented as approximate): 1 ulp-ish relative error
        let f = d.as_seconds_f64();
        let exact = v as f64 / 1e9;
        ensure!((f - exact).abs() <= exact.abs() * 1e-12 + 1e-9, "as_seconds_f64 of {v}: {f} vs {exact}");
        // single precision: 24-bit significand; whole seconds, fraction and their sum are each rounded once,
        // and the whole-second part of a negative value is one larger in magnitude than the value
        let f32v = d.as_seconds_f32() as f64;
        ensure!((f32v - exact).abs() <= (exact.abs() + 1.0) * 2.4e-7, "as_seconds_f32 of {v}: {f32v} vs {exact}");
        ensure!((f32v >= 0.0) == (v >= 0) || f32v == 0.0, "as_seconds_f32 of {v} has the wrong sign: {f32v}");
        Ok(())
    }
}

// ---------------------------------------------------------------------------------------------
pub struct Bin;
impl SubCheck for Bin {
    type Case = (D, D);
    fn name(&self) -> &'static str {
        "binary"
    }
    fn rule(&self) -> &'static str {
        "case = two in-range durations; checked_add/sub, operators, comparison, Sum against i128; non-trivial = an operand or the exact result within 2^32 ns of a limit or out of range, or a negative operand with non-zero sub-second part"
    }
    fn strategy(&self) -> Option<BoxedStrategy<Self::Case>> {
        let m = TD_MAX_NS;
        Some(
            prop_oneof![
                3 => (dur(), dur()),
                // b chosen so that a+b or a-b lands within a few ns of a limit
                2 => (dur(), -3i128..=3, any::<bool>(), any::<bool>()).prop_map(move |(a, e, hi, sub)| {
                    let target = if hi { m + e } else { -m + e };
                    let b = if sub { a.ns() - target } else { target - a.ns() };
                    (a, D::of(b.clamp(-m, m)))
                }),
                1 => (dur(), -2_000_000_000i128..=2_000_000_000).prop_map(move |(a, e)| (a, D::of((a.ns() + e).clamp(-m, m)))),
                // b a whole number of seconds, a +/- b in the last partial second beyond a limit (or just inside it)
                2 => (-9_000_000_000_000_000i128..=9_000_000_000_000_000, -400_000_000i128..=400_000_000, any::<bool>(), any::<bool>()).prop_map(move |(bs, over, hi, sub)| {
                    let b = bs * NS;
                    let target = if hi { m + over } else { -m - over };
                    let a = if sub { target + b } else { target - b };
                    if a.abs() <= m { (D::of(a), D::of(b)) } else { (D::of(target.clamp(-m, m)), D::of(0)) }
                }),
            ]
            .boxed(),
        )
    }
    fn check(&self, &(ca, cb): &Self::Case, obs: &mut Obs) -> Result<(), String> {
        let (a, b) = (ca.ns(), cb.ns());
        classify(a, obs);
        classify(b, obs);
        let (da, db) = (ca.td()?, cb.td()?);
        for (name, exact, got, op) in [
            ("checked_add", a + b, call("checked_add", || da.checked_add(&db))?, 0),
            ("checked_sub", a - b, call("checked_sub", || da.checked_sub(&db))?, 1),
        ] {
            obs.nt_if((TD_MAX_NS - exact.abs()).abs() < (1 << 32), "result_near_limit");
            obs.label_if(!td_in_range(exact), "result_out_of_range");
            match got {
                Some(r) => {
                    ensure!(td_in_range(exact), "{name}({a}, {b}) returned Some for an out-of-range result {exact}");
                    ensure_eq!(read(name, &r)?, exact, "{name}({a}, {b})");
                    let o = call("operator", || if op == 0 { da + db } else { da - db })?;
                    ensure_eq!(o, r, "operator form of {name}({a}, {b})");
                    let mut x = da;
                    call("op-assign", || if op == 0 { x += db } else { x -= db })?;
                    ensure_eq!(x, r, "assign form of {name}({a}, {b})");
                }
                None => {
                    ensure!(!td_in_range(exact), "{name}({a}, {b}) refused the in-range result {exact}");
                    expect_panic("operator on overflow", || if op == 0 { da + db } else { da - db })?;
                }
            }
        }
        ensure_eq!(da.cmp(&db), a.cmp(&b), "cmp({a}, {b})");
        ensure_eq!(da.partial_cmp(&db), Some(a.cmp(&b)), "partial_cmp({a}, {b})");
        ensure_eq!(da == db, a == b, "eq({a}, {b})");
        if td_in_range(a + b) {
            let s: TimeDelta = call("Sum", || [da, db].iter().sum())?;
            ensure_eq!(read("Sum", &s)?, a + b, "Sum of [{a}, {b}]");
            let s2: TimeDelta = call("Sum", || vec![da, db].into_iter().sum())?;
            ensure_eq!(s2, s, "Sum by value");
        } else {
            // a total outside the range is a failure (these forms have no other way to report it than a
            // panic); an out-of-range value must never come back
            expect_panic("Sum by reference of an out-of-range total", || [da, db].iter().sum::<TimeDelta>())?;
            expect_panic("Sum by value of an out-of-range total", || vec![da, db].into_iter().sum::<TimeDelta>())?;
            expect_panic("+= on overflow", || { let mut x = da; x += db; x })?;
        }
        if !td_in_range(a - b) {
            expect_panic("-= on overflow", || { let mut x = da; x -= db; x })?;
        }
        // an operand that survives a failed assignment (caught panic) is still a value of the range
        for sub in [false, true] {
            if td_in_range(if sub { a - b } else { a + b }) { continue; }
            let mut left = da;
            let r = guard(std::panic::AssertUnwindSafe(|| if sub { left -= db } else { left += db }));
            ensure!(r.is_err(), "assign operator on overflow did not fail");
            let v = left.num_seconds() as i128 * NS + left.subsec_nanos() as i128;
            ensure!(td_in_range(v), "after a failed {} the left operand holds {v} ns, outside the range", if sub { "-=" } else { "+=" });
        }
        Ok(())
    }
}

// ---------------------------------------------------------------------------------------------
pub struct MulDiv;
impl SubCheck for MulDiv {
    type Case = (D, i32);
    fn name(&self) -> &'static str {
        "mul_div"
    }
    fn rule(&self) -> &'static str {
        "case = (duration, i32 factor); checked_mul exact or None exactly out of range, checked_div within 2 ns of the exact quotient; non-trivial = product within 2^32 ns of a limit or out of range by less than one |a|, factor in {0, +/-1, i32::MIN, i32::MAX}, or negative operand with sub-second part"
    }
    fn strategy(&self) -> Option<BoxedStrategy<Self::Case>> {
        let m = TD_MAX_NS;
        Some(
            prop_oneof![
                3 => (dur(), crate::gen::i32_edges()),
                // a = limit / k +/- small  so the product straddles the limit
                3 => (crate::gen::i32_edges(), -3i128..=3, any::<bool>()).prop_map(move |(k, e, neg)| {
                    let kk = if k == 0 { 1 } else { k };
                    let a = m / (kk as i128).abs() + e;
                    (D::of((if neg { -a } else { a }).clamp(-m, m)), kk)
                }),
                1 => (dur(), -20i32..=20),
                // whole seconds * factor straddles the 64-bit seconds range (far outside the duration range):
                // a = (i64::MAX s) / |k| +/- small, with a large sub-second part
                2 => (prop_oneof![1 => 1001i32..=i32::MAX, 1 => i32::MIN..=-1001, 1 => proptest::sample::select(vec![1_000_000i32, -1_000_000, 1024, -4096, 65_536, 1_000_003])], -2i128..=2, 0i128..1_000_000_000, any::<bool>()).prop_map(move |(k, e, frac, neg)| {
                    let secs = (i64::MAX as i128) / (k as i128).abs() + e;
                    let a = secs * NS + frac;
                    (D::of((if neg { -a } else { a }).clamp(-m, m)), k)
                }),
            ]
            .boxed(),
        )
    }
    fn check(&self, &(ca, k): &Self::Case, obs: &mut Obs) -> Result<(), String> {
        let a = ca.ns();
        classify(a, obs);
        obs.nt_if(matches!(k, 0 | 1 | -1 | i32::MIN | i32::MAX), "factor_edge");
        obs.nt_if(k != 0 && ((a / NS * k as i128).abs() - i64::MAX as i128).abs() <= 3 * (k as i128).abs(), "seconds_product_at_i64_limit");
        let da = ca.td()?;
        let exact = a * k as i128;
        obs.nt_if((TD_MAX_NS - exact.abs()).abs() < (1 << 32), "product_near_limit");
        obs.nt_if(!td_in_range(exact) && exact.abs() - TD_MAX_NS <= a.abs(), "product_just_out_of_range");
        match call("checked_mul", || da.checked_mul(k))? {
            Some(r) => {
                // the range invariant is checked first: no operation may yield a value outside it
                let v = read("checked_mul", &r)?;
                ensure!(td_in_range(exact), "checked_mul({a}, {k}) returned Some({v}) for an out-of-range product {exact}");
                ensure_eq!(v, exact, "checked_mul({a}, {k})");
                ensure_eq!(call("Mul", || da * k)?, r, "operator * ({a}, {k})");
            }
            None => {
                ensure!(!td_in_range(exact), "checked_mul({a}, {k}) refused the in-range product {exact}");
                expect_panic("operator * on overflow", || da * k)?;
            }
        }
        match call("checked_div", || da.checked_div(k))? {
            Some(q) => {
                ensure!(k != 0, "checked_div by zero returned Some");
                let qv = read("checked_div", &q)?;
                let err = (qv * k as i128 - a).abs();
                ensure!(err < 2 * (k as i128).abs(), "checked_div({a}, {k}) = {qv}: differs from the exact quotient by 2 ns or more (|q*k - a| = {err})");
                ensure_eq!(call("Div", || da / k)?, q, "operator / ({a}, {k})");
            }
            None => {
                ensure!(k == 0, "checked_div({a}, {k}) = None for a non-zero divisor");
                expect_panic("operator / by zero", || da / k)?;
            }
        }
        Ok(())
    }
}

// ---------------------------------------------------------------------------------------------
pub struct FromStd;
impl SubCheck for FromStd {
    type Case = (u64, u32);
    fn name(&self) -> &'static str {
        "from_std"
    }
    fn rule(&self) -> &'static str {
        "case = std Duration (secs u64, nanos < 1e9); non-trivial = within 2 s of the upper limit or secs beyond i64"
    }
    fn strategy(&self) -> Option<BoxedStrategy<Self::Case>> {
        let ms = (TD_MAX_NS / NS) as u64;
        Some(
            (
                prop_oneof![2 => any::<u64>(), 3 => (-3i64..=3).prop_map(move |d| (ms as i64 + d) as u64), 2 => 0u64..1000, 1 => Just(u64::MAX), 1 => (0u64..4).prop_map(|d| i64::MAX as u64 - 1 + d)],
                prop_oneof![2 => 0u32..1_000_000_000, 2 => proptest::sample::select(vec![0u32, 1, 806_999_999, 807_000_000, 807_000_001, 999_999_999])],
            )
                .boxed(),
        )
    }
    fn check(&self, &(s, n): &Self::Case, obs: &mut Obs) -> Result<(), String> {
        let v = s as i128 * NS + n as i128;
        obs.nt_if((TD_MAX_NS - v).abs() < 2 * NS, "at_limit");
        obs.nt_if(s > i64::MAX as u64, "secs_beyond_i64");
        let sd = std::time::Duration::new(s, n);
        match call("from_std", || TimeDelta::from_std(sd))? {
            Ok(d) => {
                ensure!(td_in_range(v), "from_std accepted out-of-range {v}");
                ensure_eq!(read("from_std", &d)?, v, "from_std({s}, {n})");
                ensure_eq!(d.to_std().ok(), Some(sd), "to_std(from_std)");
            }
            Err(_) => ensure!(!td_in_range(v), "from_std refused in-range {v}"),
        }
        Ok(())
    }
}

pub fn subs() -> Vec<Box<dyn DynSub>> {
    vec![Box::new(New), Box::new(Unit), Box::new(Unary), Box::new(Bin), Box::new(MulDiv), Box::new(FromStd)]
}

pub fn run(ctx: &Ctx) {
    let n = ctx.n(3_000_000, 300_000_000);
    ctx.run_prop(&New, n);
    ctx.run_prop(&Unit, n);
    ctx.run_prop(&Unary, n);
    ctx.run_prop(&Bin, n);
    ctx.run_prop(&MulDiv, n);
    ctx.run_prop(&FromStd, n / 2);
    // constants
    let mn = ns_of(&TimeDelta::MIN);
    let mx = ns_of(&TimeDelta::MAX);
    if mn != -TD_MAX_NS || mx != TD_MAX_NS || TimeDelta::min_value() != TimeDelta::MIN || TimeDelta::max_value() != TimeDelta::MAX || !TimeDelta::zero().is_zero() {
        ctx.push_failure("unary", &D::of(0), format!("TimeDelta::MIN/MAX/zero constants: {mn} {mx}"));
    }
}
