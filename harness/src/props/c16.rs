//! C16 The TZif and TZ-rule readers accept well-formed data and survive everything else.
use crate::alloc_track::measure;
use crate::engine::{Ctx, DynSub, Obs, SubCheck};
use crate::gen::zone::{alt_rule, fixed_rule, zone_file, ZoneFile};
use crate::guard::{call, guard};
use crate::known;
use crate::props::c05::system_files;
use crate::refmodel::cal;
use crate::refmodel::zone::{read_tzif, Day, Indicators, Model, Rule, Version, ZType};
use crate::{conv, ensure, ensure_eq};
use chrono::__verif as hook;
use proptest::prelude::*;
use serde::{Deserialize, Serialize};

fn to_ztype(t: &hook::TypeDump) -> ZType {
    ZType { utoff: t.0, isdst: t.1, abbr: t.2.as_ref().map(|b| String::from_utf8_lossy(b).into_owned()).unwrap_or_default() }
}
fn to_day(d: &hook::DayDump) -> Day {
    match d {
        hook::DayDump::Julian1(n) => Day::J1(*n),
        hook::DayDump::Julian0(n) => Day::J0(*n),
        hook::DayDump::MonthWeekDay(m, w, d) => Day::Mwd(*m, *w, *d),
    }
}
fn to_rule(r: &hook::RuleDump) -> Rule {
    match r {
        hook::RuleDump::Fixed(t) => Rule::Fixed(to_ztype(t)),
        hook::RuleDump::Alternate { std, dst, start, start_time, end, end_time } => Rule::Alt { std: to_ztype(std), dst: to_ztype(dst), start: to_day(start), start_time: *start_time, end: to_day(end), end_time: *end_time },
    }
}
pub fn dump_model(z: &hook::Zone) -> Model {
    let d = hook::dump(z);
    Model { types: d.types.iter().map(to_ztype).collect(), transitions: d.transitions.clone(), footer: d.rule.as_ref().map(to_rule) }
}

/// parse under the panic monitor and the heap meter: Ok(zone) / Err(message) of the reader
fn parse_tzif(bytes: &[u8]) -> Result<Result<hook::Zone, String>, String> {
    let (r, peak) = measure(|| guard(|| hook::zone_from_tzif(bytes)));
    let r = r.map_err(|m| format!("PANIC in zone_from_tzif: {m}"))?;
    let bound = 16 * bytes.len() + 65_536;
    ensure!(peak <= bound, "reading a {}-byte file allocated {peak} bytes (bound 16 x input + 64 KiB = {bound})", bytes.len());
    Ok(r)
}
fn parse_tz(s: &str) -> Result<Result<hook::Zone, String>, String> {
    let (r, peak) = measure(|| guard(|| hook::zone_from_tz_string(s)));
    let r = r.map_err(|m| format!("PANIC in zone_from_tz_string: {m}"))?;
    ensure!(peak <= 16 * s.len() + 65_536, "reading a {}-byte TZ string allocated {peak} bytes", s.len());
    Ok(r)
}

/// (d) an accepted zone answers both lookups everywhere without panicking
pub fn exercise_lookups(z: &hook::Zone, around: &[i64]) -> Result<(), String> {
    let lo = cal::min_day() * 86_400;
    let hi = cal::max_day() * 86_400 + 86_399;
    let mut us: Vec<i64> = vec![i64::MIN, i64::MIN + 1, i64::MAX, i64::MAX - 1, 0, lo, hi, lo - 1, hi + 1, i32::MIN as i64, i32::MAX as i64];
    for &t in around {
        for d in [-1i64, 0, 1] { us.push(t.saturating_add(d)); }
    }
    for u in us {
        let _ = call("offset_at", || hook::offset_at(z, u))?;
        let w = u.clamp(lo, hi);
        let n = conv::ndt(crate::refmodel::inst::Ndt { day: w.div_euclid(86_400), secs: w.rem_euclid(86_400) as u32, frac: 0 });
        let _ = call("offsets_for_local", || hook::offsets_for_local(z, n))?;
    }
    let _ = call("offsets_for_local(MIN)", || hook::offsets_for_local(z, chrono::NaiveDateTime::MIN))?;
    let _ = call("offsets_for_local(MAX)", || hook::offsets_for_local(z, chrono::NaiveDateTime::MAX))?;
    Ok(())
}

// ---------------------------------------------------------------------------------------------
pub struct Accept;
impl SubCheck for Accept {
    type Case = ZoneFile;
    fn name(&self) -> &'static str {
        "accept_written_files"
    }
    fn rule(&self) -> &'static str {
        "case = a zone model written by the reference TZif writer (v1/v2/v3, with or without footer, 0-2000 transitions, extreme but legal 64-bit transition times); must be accepted, the structural dump (transition times and type indices, types' offset/dst/abbreviation, footer rule) must equal what was written, heap use bounded, and both lookups must answer everywhere without panicking; non-trivial = at least one transition and a footer, or an extreme transition time"
    }
    fn strategy(&self) -> Option<BoxedStrategy<ZoneFile>> {
        let extreme = (zone_file(6), proptest::sample::select(vec![i64::MAX, i64::MAX - 1, i64::MIN, i64::MIN + 1, i64::MIN + 86_400, i64::MAX - 86_400, 1i64 << 62, -(1i64 << 62), -(1i64 << 59), -(1i64 << 59) + 1, -(1i64 << 59) - 1, 1i64 << 59, -(1i64 << 31), -(1i64 << 31) - 1, -(1i64 << 32), 1i64 << 31, 1i64 << 32]), any::<bool>()).prop_map(|(mut f, t, front)| {
            // an extreme but legal transition time needs the 64-bit block and no rule evaluation there
            if f.version == Version::V1 { f.version = Version::V2; }
            f.model.footer = None;
            let ty = f.model.types.len() - 1;
            if front || t < 0 {
                f.model.transitions.retain(|x| x.0 > t);
                f.model.transitions.insert(0, (t, ty));
            } else {
                f.model.transitions.retain(|x| x.0 < t);
                f.model.transitions.push((t, ty));
            }
            f
        });
        Some(prop_oneof![6 => zone_file(40), 1 => zone_file(2000), 2 => extreme, 2 => crate::gen::zone::big_table_file()].boxed())
    }
    fn check(&self, f: &ZoneFile, obs: &mut Obs) -> Result<(), String> {
        let m = &f.model;
        obs.nt_if(!m.transitions.is_empty() && m.footer.is_some(), "transitions_and_footer");
        let ext = m.transitions.iter().any(|t| t.0.unsigned_abs() > 1 << 58);
        obs.nt_if(ext, "extreme_transition_time");
        obs.label(match f.version { Version::V1 => "v1", Version::V2 => "v2", Version::V3 => "v3" });
        obs.label_if(m.transitions.len() > 100, "many_transitions");
        obs.nt_if(m.types.len() > 8, "many_types");
        obs.label_if(m.types.len() * 7 + f.extra_chars >= 256, "designation_table_256_or_more");
        let bytes = f.bytes();
        let z = parse_tzif(&bytes)?.map_err(|e| format!("a file written by the reference TZif writer was rejected: {e}"))?;
        let d = dump_model(&z);
        ensure_eq!(d.transitions, m.transitions, "transitions read back");
        ensure_eq!(d.types, m.types, "local time types read back");
        ensure_eq!(d.footer, m.footer, "footer rule read back");
        let around: Vec<i64> = m.transitions.iter().map(|t| t.0).take(50).chain(m.transitions.last().map(|t| t.0)).collect();
        exercise_lookups(&z, &around)?;
        // the independent reader agrees with the writer too (oracle self-check)
        ensure!(read_tzif(&bytes).as_ref() == Some(m), "harness: reference reader disagrees with reference writer");
        Ok(())
    }
}

// ---------------------------------------------------------------------------------------------
pub struct AcceptLeap;
impl SubCheck for AcceptLeap {
    type Case = ZoneFile;
    fn name(&self) -> &'static str {
        "accept_leap_and_rule_aligned_files"
    }
    fn rule(&self) -> &'static str {
        "case = a file as zic writes it: explicit transitions that end exactly on (or 1-3 s before) a transition of the file's own footer rule, or a generated zone, each optionally with 1-27 leap-second records (transition times then written in the leap-time scale); must be accepted, and transitions (in the written scale), leap-second records, types and footer must read back exactly; lookups answer without panicking; non-trivial = leap-second records present, or the last transition lies within 3 s of a rule transition"
    }
    fn strategy(&self) -> Option<BoxedStrategy<ZoneFile>> {
        let with_leaps = zone_file(40).prop_flat_map(|f| {
            let l = crate::gen::zone::leap_records(&f.model.transitions);
            (Just(f), l).prop_map(|(mut f, l)| { f.leaps = l; f })
        });
        Some(prop_oneof![3 => crate::gen::zone::last_on_rule_file(), 2 => with_leaps].boxed())
    }
    fn check(&self, f: &ZoneFile, obs: &mut Obs) -> Result<(), String> {
        let m = &f.model;
        obs.nt_if(!f.leaps.is_empty(), "leap_second_records");
        obs.label_if(f.leaps.last().map(|l| l.1 > 0).unwrap_or(false), "positive_total_correction");
        if let (Some(last), Some(_)) = (m.transitions.last(), &m.footer) {
            let near = Model { types: m.types.clone(), transitions: vec![], footer: m.footer.clone() }.change_points_near(last.0).iter().any(|p| (p - last.0).abs() <= 3);
            obs.nt_if(near, "last_transition_at_rule_transition");
        }
        let bytes = f.bytes();
        let z = parse_tzif(&bytes)?.map_err(|e| format!("a file written by the reference TZif writer was rejected: {e}"))?;
        let raw = hook::dump(&z);
        let written: Vec<(i64, usize)> = m.transitions.iter().map(|t| (crate::refmodel::zone::to_leap_time(t.0, &f.leaps), t.1)).collect();
        ensure_eq!(raw.transitions, written, "transitions read back (leap-time scale)");
        ensure_eq!(raw.leap_seconds, f.leaps, "leap-second records read back");
        let d = dump_model(&z);
        ensure_eq!(d.types, m.types, "local time types read back");
        ensure_eq!(d.footer, m.footer, "footer rule read back");
        let around: Vec<i64> = m.transitions.iter().map(|t| t.0).take(50).chain(f.leaps.iter().map(|l| l.0)).collect();
        exercise_lookups(&z, &around)?;
        Ok(())
    }
}

// ---------------------------------------------------------------------------------------------
pub struct AcceptTz;
impl SubCheck for AcceptTz {
    type Case = (Rule, bool);
    fn name(&self) -> &'static str {
        "accept_tz_strings"
    }
    fn rule(&self) -> &'static str {
        "case = a POSIX TZ string of the form `std offset` or `std offset dst [offset],start[/time],end[/time]` (quoted names, offsets up to 24 h, all three day forms, default or explicit values); accepted, yields exactly the written rule, lookups never panic; non-trivial = alternate-time rule"
    }
    fn strategy(&self) -> Option<BoxedStrategy<Self::Case>> {
        let wide = (prop_oneof![2 => alt_rule(false), 1 => fixed_rule()], proptest::sample::select(vec![None, Some(86_400), Some(-86_400), Some(86_399), Some(-43_200)])).prop_map(|(r, o)| match (r, o) {
            (Rule::Fixed(mut t), Some(o)) => { t.utoff = o; Rule::Fixed(t) }
            (r, _) => r,
        });
        // arbitrary (not necessarily well-inside-the-year) rules: acceptance does not depend on it
        let any_days = (alt_rule(false), crate::gen::zone::rule_day(), crate::gen::zone::rule_day(), 0i32..=86_400, 0i32..=86_400).prop_map(|(r, s, e, st, et)| match r {
            Rule::Alt { std, dst, .. } => Rule::Alt { std, dst, start: s, start_time: st, end: e, end_time: et },
            r => r,
        });
        Some((prop_oneof![3 => wide, 2 => any_days], any::<bool>()).boxed())
    }
    fn check(&self, (rule, explicit): &Self::Case, obs: &mut Obs) -> Result<(), String> {
        obs.nt_if(matches!(rule, Rule::Alt { .. }), "alternate_rule");
        let s = rule.to_tz_string(*explicit);
        let z = parse_tz(&s)?.map_err(|e| format!("TZ string {s:?} was rejected: {e}"))?;
        let d = dump_model(&z);
        ensure_eq!(d.footer.as_ref(), Some(rule), "rule read from {s:?}");
        ensure!(d.transitions.is_empty(), "TZ string produced transitions");
        exercise_lookups(&z, &[0, 1_700_000_000, -2_000_000_000])?;
        // surrounding ASCII white space is trimmed by the TZ variable reader
        let padded = format!(" {s}\t");
        let _ = parse_tz(&padded)?;
        Ok(())
    }
}

// ---------------------------------------------------------------------------------------------
#[derive(Clone, Debug, Serialize, Deserialize)]
pub struct MutCase {
    pub file: ZoneFile,
    pub kind: u8,
    pub a: u32,
    pub b: u32,
}
pub struct Mutations;
pub const MUT_NAMES: [&str; 23] = ["strict_prefix", "bad_magic", "bad_version", "count_mismatch", "count_extreme", "unsorted_transitions", "duplicate_transition", "type_index_out_of_bounds", "abbr_index_out_of_bounds", "abbr_unterminated", "dst_byte_2", "forbidden_isut_without_isstd", "footer_no_leading_newline", "footer_no_trailing_newline", "footer_nul", "footer_colon", "footer_malformed_rule", "utoff_i32_min", "trailing_byte_after_v1", "v1_block_magic", "v1_block_without_types", "footer_name_mismatch", "footer_unicode_space_padding"];

/// byte layout of the governing data block (the 64-bit block of v2+, the only block of v1)
struct Layout {
    hdr: usize,
    ts: usize,
    counts: [usize; 6], // isut, isstd, leap, time, type, char
}
impl Layout {
    fn of(b: &[u8], v1: bool) -> Layout {
        let c = |h: usize| -> [usize; 6] { let mut c = [0; 6]; for i in 0..6 { c[i] = u32::from_be_bytes(b[h + 20 + 4 * i..h + 24 + 4 * i].try_into().unwrap()) as usize; } c };
        let c1 = c(0);
        if v1 { return Layout { hdr: 0, ts: 4, counts: c1 }; }
        let skip = 44 + c1[3] * 4 + c1[3] + c1[4] * 6 + c1[5] + c1[2] * 8 + c1[1] + c1[0];
        Layout { hdr: skip, ts: 8, counts: c(skip) }
    }
    fn times(&self) -> usize { self.hdr + 44 }
    fn idx(&self) -> usize { self.times() + self.counts[3] * self.ts }
    fn types(&self) -> usize { self.idx() + self.counts[3] }
    fn chars(&self) -> usize { self.types() + self.counts[4] * 6 }
    fn isstd(&self) -> usize { self.chars() + self.counts[5] + self.counts[2] * (self.ts + 4) }
    fn isut(&self) -> usize { self.isstd() + self.counts[1] }
    fn footer(&self) -> usize { self.isut() + self.counts[0] }
}

/// apply mutation `kind`; None when the base file cannot carry that defect
pub fn mutate(f: &ZoneFile, kind: u8, a: u32, b: u32) -> Option<Vec<u8>> {
    let mut bytes = f.bytes();
    let v1 = f.version == Version::V1;
    let l = Layout::of(&bytes, v1);
    let (timecnt, typecnt, charcnt) = (l.counts[3], l.counts[4], l.counts[5]);
    match kind {
        0 => { let n = a as usize % bytes.len(); bytes.truncate(n); }
        1 => { let p = l.hdr + a as usize % 4; bytes[p] ^= 1 + (b as u8 & 0x7e); }
        2 => { bytes[l.hdr + 4] = [b'1', b'4', 1, b'0', 0xff, b' '][a as usize % 6]; if !v1 && a % 2 == 0 { bytes[4] = bytes[l.hdr + 4]; } }
        3 => {
            // one count differs from the data by a small amount
            let which = a as usize % 6;
            let old = l.counts[which] as i64;
            let delta = [1i64, -1, 2, -2, 3, 7][b as usize % 6];
            let new = old + delta;
            // counts that would still be *consistent* are not defects: isut/isstd may legally be 0 or typecnt
            if new < 0 || ((which == 0 || which == 1) && (new == 0 || new == typecnt as i64) ) { return None; }
            if (which == 4 || which == 5) && new == 0 { /* zero types / chars: invalid header */ }
            let p = l.hdr + 20 + 4 * which;
            bytes[p..p + 4].copy_from_slice(&(new as u32).to_be_bytes());
        }
        4 => {
            let which = a as usize % 6;
            let new: u32 = [u32::MAX, u32::MAX / 2, 0x8000_0000, 0, 0x0100_0000][b as usize % 5];
            if new as usize == l.counts[which] { return None; }
            if new == 0 && (which == 0 || which == 1 || which == 2) { return None; } // zero is a legal count there
            if new == 0 && which == 3 && timecnt == 0 { return None; }
            let p = l.hdr + 20 + 4 * which;
            bytes[p..p + 4].copy_from_slice(&new.to_be_bytes());
        }
        5 => {
            if timecnt < 2 { return None; }
            let i = a as usize % (timecnt - 1);
            let (x, y) = (l.times() + i * l.ts, l.times() + (i + 1) * l.ts);
            for k in 0..l.ts { bytes.swap(x + k, y + k); }
        }
        6 => {
            if timecnt < 2 { return None; }
            let i = a as usize % (timecnt - 1);
            let (x, y) = (l.times() + i * l.ts, l.times() + (i + 1) * l.ts);
            for k in 0..l.ts { bytes[y + k] = bytes[x + k]; }
        }
        7 => { if timecnt == 0 { return None; } bytes[l.idx() + a as usize % timecnt] = (typecnt + b as usize % (256 - typecnt)) as u8; }
        8 => { if charcnt >= 256 { return None; } bytes[l.types() + (a as usize % typecnt) * 6 + 5] = (charcnt + b as usize % (256 - charcnt)) as u8; }
        9 => {
            // the last designation loses its terminator; the index points at it (one letter, or a
            // whole plausible name of three or four characters)
            let last = l.chars() + charcnt - 1;
            let n = [1usize, 3, 4][b as usize % 3].min(charcnt);
            if charcnt - n >= 256 { return None; }
            for (k, c) in b"ECTX"[..n].iter().enumerate() { bytes[last + 1 - n + k] = *c; }
            bytes[l.types() + (a as usize % typecnt) * 6 + 5] = (charcnt - n) as u8;
        }
        10 => { bytes[l.types() + (a as usize % typecnt) * 6 + 4] = 2 + (b % 254) as u8; }
        11 => {
            let k = a as usize % typecnt;
            match f.ind {
                Indicators::None | Indicators::StdOnly => return None,
                // only the UT/local block is present: an absent standard/wall block reads as all "wall"
                Indicators::UtZerosOnly => bytes[l.isut() + k] = 1,
                _ if b % 3 == 0 => {
                    // drop the standard/wall block, keep a UT/local block that says "UT" somewhere
                    let (at, n) = (l.isstd(), l.counts[1]);
                    bytes.drain(at..at + n);
                    let p = l.hdr + 20 + 4;
                    bytes[p..p + 4].copy_from_slice(&0u32.to_be_bytes());
                    bytes[at + k] = 1;
                }
                _ => {
                    bytes[l.isstd() + k] = 0;
                    bytes[l.isut() + k] = 1;
                }
            }
        }
        12..=16 => {
            if v1 { return None; }
            let fo = l.footer();
            let rule = f.model.footer.as_ref().map(|r| r.to_tz_string(f.explicit_footer)).unwrap_or_default();
            bytes.truncate(fo);
            match kind {
                12 => { bytes.extend(rule.bytes()); bytes.push(b'\n'); if rule.is_empty() { bytes.insert(fo, b'X'); } }
                13 => { bytes.push(b'\n'); bytes.extend(rule.bytes()); if rule.is_empty() { bytes.push(b'X'); } }
                14 => { bytes.push(b'\n'); bytes.extend(rule.bytes()); bytes.push(0); bytes.extend(b"EST5"); bytes.push(b'\n'); }
                15 => { bytes.push(b'\n'); bytes.push(b':'); bytes.extend(if rule.is_empty() { "UTC".bytes() } else { rule.bytes() }); bytes.push(b'\n'); }
                _ => {
                    let bad = ["EST", "E5", "EST5EDT", "EST5EDT,M3.2.0", "EST5EDT,M13.1.0,M11.1.0", "EST5EDT,M3.6.0,M11.1.0", "EST5EDT,M3.2.7,M11.1.0", "EST5EDT,J0,J300", "EST5EDT,J366,J10", "EST5EDT,366,10", "EST25", "EST5:60", "EST5EDT,M3.2.0,M11.1.0,", "5", "<EST5", "EST5EDT,M3.2.0,M11.1.0 x"];
                    bytes.push(b'\n');
                    bytes.extend(bad[a as usize % bad.len()].bytes());
                    bytes.push(b'\n');
                }
            }
        }
        17 => { let p = l.types() + (a as usize % typecnt) * 6; bytes[p..p + 4].copy_from_slice(&i32::MIN.to_be_bytes()); }
        18 => { if !v1 { return None; } bytes.push(a as u8); }
        19 => { if v1 { return None; } bytes[a as usize % 4] ^= 0x20; }
        21 => {
            // the footer names the last transition's type with one character changed (the last one):
            // rule and last transition then disagree
            if v1 { return None; }
            let rule = f.model.footer.as_ref()?;
            let last = f.model.transitions.last()?;
            let name = f.model.types[last.1].abbr.clone();
            if !name.bytes().all(|c| c.is_ascii_alphabetic()) { return None; }
            let txt = rule.to_tz_string(f.explicit_footer);
            if txt.matches(name.as_str()).count() != 1 { return None; }
            let mut other = name.clone().into_bytes();
            let k = other.len() - 1;
            other[k] = if other[k] == b'X' { b'Y' } else { b'X' };
            let other = String::from_utf8(other).ok()?;
            if txt.contains(other.as_str()) { return None; }
            let fo = l.footer();
            bytes.truncate(fo);
            bytes.push(b'\n');
            bytes.extend(txt.replace(name.as_str(), other.as_str()).bytes());
            bytes.push(b'\n');
        }
        22 => {
            // a white-space character that is not ASCII white space (or a vertical tab) inside the newlines
            if v1 { return None; }
            let rule = f.model.footer.as_ref().map(|r| r.to_tz_string(f.explicit_footer)).unwrap_or_default();
            let pad = ["\u{a0}", "\u{2003}", "\u{85}", "\u{b}", "\u{3000}", "\u{2028}"][a as usize % 6];
            let fo = l.footer();
            bytes.truncate(fo);
            bytes.push(b'\n');
            if b % 2 == 0 { bytes.extend(pad.bytes()); bytes.extend(rule.bytes()); } else { bytes.extend(rule.bytes()); bytes.extend(pad.bytes()); }
            bytes.push(b'\n');
        }
        _ => {
            // the 32-bit block of a v2+ file replaced by an empty one whose header says so consistently:
            // no types (and / or no designation bytes) is not a legal header, even for the block that is skipped
            if v1 { return None; }
            let mut out = bytes[..20].to_vec();
            let (typ, chr): (u32, u32) = match a % 3 { 0 => (0, 0), 1 => (0, 1), _ => (1, 0) };
            for c in [0u32, 0, 0, 0, typ, chr] { out.extend(c.to_be_bytes()); }
            if typ == 1 { out.extend([0u8, 0, 0, 0, 0, 0]); }
            if chr == 1 { out.push(0); }
            out.extend(&bytes[l.hdr..]);
            bytes = out;
        }
    }
    Some(bytes)
}

impl SubCheck for Mutations {
    type Case = MutCase;
    fn name(&self) -> &'static str {
        "structured_mutations"
    }
    fn rule(&self) -> &'static str {
        "case = (valid written file, mutation kind, two selectors): one defect is introduced by construction (truncation, bad magic/version, a count that disagrees with the data or is extreme, unsorted/duplicate transitions, type or abbreviation index out of bounds, unterminated abbreviation, dst byte 2, forbidden indicator pair, footer without newlines / with NUL / with ':' / with a malformed rule, utoff = i32::MIN, trailing byte); the file must be rejected with an error, without panic and within the heap bound; every case is one mutation away from an accepted file (non-trivial)"
    }
    fn strategy(&self) -> Option<BoxedStrategy<MutCase>> {
        Some((prop_oneof![5 => zone_file(12), 1 => zone_file(200)], 0u8..23, any::<u32>(), any::<u32>()).prop_map(|(file, kind, a, b)| MutCase { file, kind, a, b }).boxed())
    }
    fn check(&self, c: &MutCase, obs: &mut Obs) -> Result<(), String> {
        let name = MUT_NAMES[c.kind as usize];
        let bytes = match mutate(&c.file, c.kind, c.a, c.b) {
            Some(b) => b,
            None => { obs.label("mutation_not_applicable"); return Ok(()); }
        };
        obs.nt(name);
        let r = parse_tzif(&bytes)?;
        if let Ok(z) = r {
            // F16 signature: a v2+ file cut right after the first newline of its footer
            let base = c.file.bytes();
            let l = Layout::of(&base, c.file.version == Version::V1);
            if c.kind == 0 && c.file.version != Version::V1 && bytes.len() == l.footer() + 1 && known::active("F16") {
                obs.excluded_known("F16");
                return Ok(());
            }
            let _ = exercise_lookups(&z, &[]);
            return Err(format!("mutation {name} (a={}, b={}) of a valid {:?} file was accepted; the defect is present by construction ({} bytes)", c.a, c.b, c.file.version, bytes.len()));
        }
        Ok(())
    }
}

// ---------------------------------------------------------------------------------------------
pub struct Garbage;
impl SubCheck for Garbage {
    type Case = Vec<u8>;
    fn name(&self) -> &'static str {
        "arbitrary_bytes"
    }
    fn rule(&self) -> &'static str {
        "case = a byte string (valid file with random byte flips / splices, header with random counts, random bytes), read as a TZif file and, when valid UTF-8, as a TZ string; no panic, heap bounded by the input size, and an accepted zone answers lookups without panicking; non-trivial = starts with the TZif magic"
    }
    fn strategy(&self) -> Option<BoxedStrategy<Vec<u8>>> {
        let flipped = (zone_file(10), proptest::collection::vec((any::<u32>(), any::<u8>()), 1..6)).prop_map(|(f, flips)| {
            let mut b = f.bytes();
            for (p, v) in flips { let i = p as usize % b.len(); b[i] = v; }
            b
        });
        let header = (proptest::collection::vec(any::<u32>(), 6), proptest::sample::select(vec![0u8, b'2', b'3']), proptest::collection::vec(any::<u8>(), 0..200)).prop_map(|(c, v, tail)| {
            let mut b = b"TZif".to_vec();
            b.push(v);
            b.extend([0u8; 15]);
            for (i, x) in c.iter().enumerate() { b.extend((if i % 2 == 0 { x % 8 } else { *x }).to_be_bytes()); }
            b.extend(tail);
            b
        });
        let tz_text = prop_oneof![
            "[A-Z]{3,4}-?[0-9]{1,2}(:[0-9]{1,2})?([A-Z]{3,4}(-?[0-9]{1,2})?(,(M[0-9]{1,2}\\.[0-9]\\.[0-9]|J?[0-9]{1,3})(/-?[0-9]{1,3})?){0,3})?",
            "[ -~]{0,40}",
            ".{0,20}",
        ]
        .prop_map(|s| s.into_bytes());
        Some(prop_oneof![4 => flipped, 2 => header, 1 => proptest::collection::vec(any::<u8>(), 0..300), 3 => tz_text].boxed())
    }
    fn check(&self, b: &Vec<u8>, obs: &mut Obs) -> Result<(), String> {
        obs.nt_if(b.starts_with(b"TZif"), "tzif_magic");
        if let Ok(z) = parse_tzif(b)? {
            obs.label("accepted_as_tzif");
            let around: Vec<i64> = hook::dump(&z).transitions.iter().map(|t| t.0).take(20).collect();
            exercise_lookups(&z, &around)?;
        }
        if let Ok(s) = std::str::from_utf8(b) {
            obs.nt_if(s.len() >= 4 && s.is_ascii(), "tz_text");
            if let Ok(z) = parse_tz(s)? {
                obs.label("accepted_as_tz_string");
                exercise_lookups(&z, &[0, 1_700_000_000])?;
            }
        }
        Ok(())
    }
}

// ---------------------------------------------------------------------------------------------
pub struct BadTz;
impl SubCheck for BadTz {
    type Case = (Rule, u8, u32);
    fn name(&self) -> &'static str {
        "tz_string_defects"
    }
    fn rule(&self) -> &'static str {
        "case = (valid rule, defect kind, selector): a TZ string with one grammar defect by construction (name shorter than 3 letters, missing offset, hour 25, minute/second 60, missing end rule, month 13, week 0/6, weekday 7, J0, J366, day 366, trailing text, missing comma, time of 25 h, signed rule time) must be rejected with an error and without panic; every case non-trivial"
    }
    fn strategy(&self) -> Option<BoxedStrategy<Self::Case>> {
        Some((alt_rule(false), 0u8..16, any::<u32>()).boxed())
    }
    fn check(&self, (rule, kind, sel): &Self::Case, obs: &mut Obs) -> Result<(), String> {
        obs.nt("defect");
        let (std, dst, start, end) = match rule { Rule::Alt { std, dst, start, end, .. } => (std, dst, *start, *end), _ => return Ok(()) };
        let off = |o: i32| { let h = -o / 3600; format!("{h}") };
        let name = |t: &ZType| if t.abbr.bytes().all(|b| b.is_ascii_alphabetic()) { t.abbr.clone() } else { format!("<{}>", t.abbr) };
        let day = |d: Day| match d { Day::J1(n) => format!("J{n}"), Day::J0(n) => format!("{n}"), Day::Mwd(m, w, d) => format!("M{m}.{w}.{d}") };
        let (s0, d0, a, b) = (name(std), name(dst), day(start), day(end));
        let so = off(std.utoff);
        let s = match kind {
            0 => format!("{}{so}{d0},{a},{b}", ["A", "AB", "", "<A>", "<>"][*sel as usize % 5]),
            1 => format!("{s0}{d0},{a},{b}"),
            2 => format!("{s0}25{d0},{a},{b}"),
            3 => format!("{s0}5:60{d0},{a},{b}"),
            4 => format!("{s0}5:00:60{d0},{a},{b}"),
            5 => format!("{s0}{so}{d0},{a}"),
            6 => format!("{s0}{so}{d0}"),
            7 => format!("{s0}{so}{d0},M13.1.0,{b}"),
            8 => format!("{s0}{so}{d0},M3.{}.0,{b}", [0, 6, 9][*sel as usize % 3]),
            9 => format!("{s0}{so}{d0},M3.1.{},{b}", 7 + sel % 3),
            10 => format!("{s0}{so}{d0},{a},J{}", [0u32, 366, 400][*sel as usize % 3]),
            11 => format!("{s0}{so}{d0},{a},{}", 366 + sel % 100),
            12 => format!("{s0}{so}{d0},{a},{b}{}", [",", "x", "/", ",M1.1.1", "/2/3", " x"][*sel as usize % 6]),
            13 => format!("{s0}{so}{d0} {a},{b}"),
            14 => format!("{s0}{so}{d0},{a}/25,{b}"),
            // POSIX rule times are unsigned (a sign is an extension of version-3 footers only)
            _ => format!("{s0}{so}{d0},{a}/{},{b}{}", ["+2", "+0", "-0", "-0:00:00", "+24", "2", "2"][*sel as usize % 7], ["", "", "", "", "", "/+3", "/-0"][*sel as usize % 7]),
        };
        if let Ok(z) = parse_tz(&s)? {
            let d = hook::dump(&z);
            return Err(format!("defective TZ string {s:?} (kind {kind}) was accepted as {:?}", d.rule));
        }
        Ok(())
    }
}

// ---------------------------------------------------------------------------------------------
pub struct System;
impl SubCheck for System {
    type Case = String;
    fn name(&self) -> &'static str {
        "system_zoneinfo"
    }
    fn rule(&self) -> &'static str {
        "case = one system zoneinfo file: accepted, structural dump equals the independent reader's model, lookups never panic; every strict prefix of a sample of files is rejected; non-trivial = file with transitions"
    }
    fn check(&self, path: &String, obs: &mut Obs) -> Result<(), String> {
        let bytes = std::fs::read(path).map_err(|e| format!("harness: {path}: {e}"))?;
        let z = parse_tzif(&bytes)?.map_err(|e| format!("system file {path} rejected: {e}"))?;
        let d = dump_model(&z);
        obs.nt_if(!d.transitions.is_empty(), "has_transitions");
        match read_tzif(&bytes) {
            Some(m) => {
                ensure_eq!(d.transitions, m.transitions, "{path}: transitions");
                ensure_eq!(d.types, m.types, "{path}: types");
                ensure_eq!(d.footer, m.footer, "{path}: footer rule");
            }
            None => obs.label("not_readable_by_reference_reader"),
        }
        let around: Vec<i64> = d.transitions.iter().map(|t| t.0).rev().take(30).collect();
        exercise_lookups(&z, &around)?;
        Ok(())
    }
}

/// all strict prefixes of a file must be rejected
pub struct Prefixes;
impl SubCheck for Prefixes {
    type Case = (ZoneFile, u32);
    fn name(&self) -> &'static str {
        "all_prefixes"
    }
    fn rule(&self) -> &'static str {
        "case = (valid written file, prefix length): exhaustive over every strict prefix of each sampled file; each is truncated data and must be rejected; every case non-trivial"
    }
    fn check(&self, (f, n): &Self::Case, obs: &mut Obs) -> Result<(), String> {
        obs.nt("prefix");
        let base = f.bytes();
        let cut = &base[..*n as usize];
        if parse_tzif(cut)?.is_ok() {
            let l = Layout::of(&base, f.version == Version::V1);
            if f.version != Version::V1 && cut.len() == l.footer() + 1 && known::active("F16") {
                obs.excluded_known("F16");
                return Ok(());
            }
            return Err(format!("the {n}-byte prefix of a valid {}-byte {:?} file was accepted", base.len(), f.version));
        }
        Ok(())
    }
}

pub fn subs() -> Vec<Box<dyn DynSub>> {
    vec![Box::new(Accept), Box::new(AcceptLeap), Box::new(AcceptTz), Box::new(Mutations), Box::new(Garbage), Box::new(BadTz), Box::new(System), Box::new(Prefixes)]
}

fn probe_f16() -> bool {
    // a valid v2 file without rule, cut after the first newline of its footer
    let m = Model { types: vec![ZType { utoff: 3600, isdst: false, abbr: "CET".into() }], transitions: vec![], footer: None };
    let b = crate::refmodel::zone::write_tzif(&m, Version::V2, Indicators::None, false);
    hook::zone_from_tzif(&b[..b.len() - 1]).is_ok()
}

pub fn run(ctx: &Ctx) {
    known::activate("F16", probe_f16());
    if known::active("F16") {
        ctx.known_finding("F16", "a v2+ file truncated right after the first newline of its footer (footer = a lone \\n) is accepted");
    }
    let n = ctx.n(300_000, 15_000_000);
    ctx.run_prop(&Accept, n);
    ctx.run_prop(&AcceptLeap, n / 2);
    ctx.run_prop(&AcceptTz, n);
    ctx.run_prop(&Mutations, 3 * n);
    ctx.run_prop(&Garbage, 2 * n);
    ctx.run_prop(&BadTz, n);
    let files = system_files();
    let pick: Vec<String> = match ctx.tier {
        crate::engine::Tier::Thorough => files,
        crate::engine::Tier::Quick => { let k = files.len().max(1); let s = (ctx.seed as usize).wrapping_mul(53) % k; (0..200.min(k)).map(|i| files[(s + i * 11) % k].clone()).collect() }
    };
    ctx.run_cases(&System, pick);
    // every strict prefix of a few small generated files (and, thorough, of many)
    use proptest::strategy::{Strategy, ValueTree};
    use proptest::test_runner::{Config, RngAlgorithm, RngSeed, TestRunner};
    let mut runner = TestRunner::new(Config { rng_seed: RngSeed::Fixed(ctx.seed ^ 0xC16), rng_algorithm: RngAlgorithm::ChaCha, failure_persistence: None, ..Config::default() });
    let files: Vec<ZoneFile> = (0..ctx.n(8, 50)).filter_map(|_| zone_file(6).new_tree(&mut runner).ok().map(|t| t.current())).collect();
    let files = &files;
    ctx.run_enum_opt(&Prefixes, files.len(), |k| { let f = files[k].clone(); let n = f.bytes().len() as u32; (0..n).map(move |i| (f.clone(), i)) }, false, true);
}
