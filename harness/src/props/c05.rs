//! C05 Local time follows the zone data: offsets, gaps and folds.
use crate::engine::{Ctx, DynSub, Obs, SubCheck};
use crate::gen::zone::{alt_rule, fixed_rule, zone_file, ZoneFile};
use crate::guard::call;
use crate::known;
use crate::refmodel::cal;
use crate::refmodel::inst::Ndt;
use crate::refmodel::zone::{read_tzif, Model, Rule};
use crate::{conv, ensure};
use chrono::__verif as hook;
use chrono::MappedLocalTime;
use proptest::prelude::*;
use serde::{Deserialize, Serialize};

fn ndt_of_unix(w: i64) -> Option<chrono::NaiveDateTime> {
    let day = w.div_euclid(86_400);
    if !cal::in_range_day(day) {
        return None;
    }
    Some(conv::ndt(Ndt { day, secs: w.rem_euclid(86_400) as u32, frac: 0 }))
}

/// exempt wall-clock seconds around the change points near `w` (statement: the single boundary
/// second that ends a skipped or repeated interval, and the first second of a gap which is not
/// *strictly* inside)
fn exempt(m: &Model, w: i64) -> bool {
    for t in m.change_points_near(w - 86_400).into_iter().chain(m.change_points_near(w + 86_400)).chain(m.change_points_near(w)) {
        if (t - w).abs() > 2 * 86_400 { continue; }
        let a = m.offset_at(t - 1) as i64;
        let b = m.offset_at(t) as i64;
        if b > a && (w == t + a || w == t + b) { return true; }
        if b < a && w == t + a { return true; }
    }
    false
}

#[derive(Clone, Copy, PartialEq, Eq, Debug)]
pub enum F { None, F11, F12 }

/// the three claims for one zone at one instant / wall time
pub fn check_instant(z: &hook::Zone, m: &Model, u: i64, obs: &mut Obs) -> Result<(), String> {
    // (1) offset at an instant
    let exp = m.offset_at(u);
    let got = call("offset_at", || hook::offset_at(z, u))?.map_err(|e| format!("offset_at({u}) = Err({e})"))?;
    if got != exp {
        return Err(format!("offset at instant {u}: got {got}, zone data prescribe {exp}"));
    }
    // (2) instant -> wall clock -> back contains the instant
    let w = u + exp as i64;
    if let Some(n) = ndt_of_unix(w) {
        let r = call("offsets_for_local", || hook::offsets_for_local(z, n))?.map_err(|e| format!("offsets_for_local({w}) = Err({e})"))?;
        match r {
            MappedLocalTime::Single(o) => ensure!(w - o as i64 == u, "wall {w} (from instant {u}, offset {exp}) maps back to the single instant {} (offset {o})", w - o as i64),
            MappedLocalTime::Ambiguous(a, b) => {
                let (ua, ub) = (w - a as i64, w - b as i64);
                ensure!(ua == u || ub == u, "wall {w} (from instant {u}) maps back to {ua} / {ub}, neither is the instant");
                ensure!(ua != ub, "wall {w}: Ambiguous with two identical candidates (offset {a})");
                if ua > ub {
                    if known::active("F11") { obs.excluded_known("F11"); } else { return Err(format!("wall {w}: Ambiguous({a}, {b}) is ordered latest first (instants {ua}, {ub})")); }
                }
            }
            MappedLocalTime::None => return Err(format!("wall {w} = instant {u} + offset {exp} maps back to nothing")),
        }
    }
    Ok(())
}

/// (1) only: the offset in force at an instant
pub fn check_instant_offset(z: &hook::Zone, m: &Model, u: i64) -> Result<(), String> {
    let exp = m.offset_at(u);
    let got = call("offset_at", || hook::offset_at(z, u))?.map_err(|e| format!("offset_at({u}) = Err({e})"))?;
    ensure!(got == exp, "offset at instant {u}: got {got}, zone data prescribe {exp}");
    Ok(())
}

pub fn check_wall(z: &hook::Zone, m: &Model, w: i64, obs: &mut Obs) -> Result<(), String> {
    let n = match ndt_of_unix(w) { Some(n) => n, None => return Ok(()) };
    let s = m.preimage(w);
    let r = call("offsets_for_local", || hook::offsets_for_local(z, n))?.map_err(|e| format!("offsets_for_local({w}) = Err({e})"))?;
    if exempt(m, w) {
        obs.label("exempt_boundary_second");
        return Ok(());
    }
    // change points are whole seconds: the same wall-clock second with a fraction has the same occurrences
    if let Some(n2) = n.checked_add_signed(chrono::TimeDelta::milliseconds(500)) {
        let r2 = call("offsets_for_local", || hook::offsets_for_local(z, n2))?.map_err(|e| format!("offsets_for_local({w}.5) = Err({e})"))?;
        ensure!(r2 == r, "wall {w} + 0.5 s is answered {r2:?}, wall {w} itself {r:?}");
    }
    match s.len() {
        1 => {
            obs.label("wall_once");
            match r {
                MappedLocalTime::Single(o) => ensure!(w - o as i64 == s[0], "wall {w} occurs once (instant {}), got Single with instant {}", s[0], w - o as i64),
                other => return Err(format!("wall {w} occurs exactly once (instant {}), got {other:?}", s[0])),
            }
        }
        2 => {
            obs.nt("fold");
            match r {
                MappedLocalTime::Ambiguous(a, b) => {
                    let (ua, ub) = (w - a as i64, w - b as i64);
                    if (ua, ub) == (s[0], s[1]) {
                    } else if (ub, ua) == (s[0], s[1]) {
                        if known::active("F11") { obs.excluded_known("F11"); } else { return Err(format!("wall {w} occurs twice (instants {}, {}): Ambiguous({a}, {b}) lists the later instant first", s[0], s[1])); }
                    } else {
                        return Err(format!("wall {w} occurs twice (instants {}, {}), got Ambiguous with instants {ua}, {ub}", s[0], s[1]));
                    }
                }
                other => return Err(format!("wall {w} occurs twice (instants {}, {}), got {other:?}", s[0], s[1])),
            }
        }
        0 => {
            obs.nt("gap");
            ensure!(matches!(r, MappedLocalTime::None), "wall {w} lies strictly inside a skipped interval, got {r:?}");
        }
        _ => obs.label("wall_three_or_more_times_not_claimed"),
    }
    Ok(())
}

/// probes for a model: around every change point, around the wall-clock images of every change
/// point, plus the extra instants
fn probes(m: &Model, extra: &[i64]) -> (Vec<i64>, Vec<i64>) {
    let mut inst: Vec<i64> = vec![];
    let mut wall: Vec<i64> = vec![];
    let mut points: Vec<i64> = m.transitions.iter().map(|t| t.0).collect();
    if m.footer.is_some() {
        for &e in extra { points.extend(m.change_points_near(e).into_iter().filter(|p| m.transitions.last().map(|l| *p > l.0).unwrap_or(true))); }
    }
    points.sort();
    points.dedup();
    // cap: dense probing of at most 64 change points per case (first, last and a spread)
    let step = (points.len() / 64).max(1);
    for (k, &t) in points.iter().enumerate() {
        if k % step != 0 && k + 3 < points.len() { continue; }
        for d in -2..=2 { inst.push(t.saturating_add(d)); }
        let a = m.offset_at(t.saturating_sub(1)) as i64;
        let b = m.offset_at(t) as i64;
        for o in [a, b] {
            for d in -2..=2 { wall.push(t.saturating_add(o + d)); }
        }
        let (lo, hi) = (a.min(b), a.max(b));
        if hi - lo > 4 { wall.push(t + lo + (hi - lo) / 2); wall.push(t + lo + 2); wall.push(t + hi - 2); }
    }
    for &e in extra { inst.push(e); wall.push(e); }
    (inst, wall)
}

fn classify_model(m: &Model, obs: &mut Obs) {
    obs.label_if(m.transitions.is_empty(), "no_transitions");
    obs.label_if(m.footer.is_some(), "footer");
    obs.label_if(matches!(m.footer, Some(Rule::Alt { .. })), "alternate_rule");
    let mut prev = m.types[0].clone();
    for (_, i) in &m.transitions {
        let t = &m.types[*i];
        obs.label_if(t.utoff == prev.utoff && *t != prev, "abbr_or_dst_only_change");
        prev = t.clone();
    }
}

// ---------------------------------------------------------------------------------------------
#[derive(Clone, Debug, Serialize, Deserialize)]
pub struct ZCase {
    pub file: ZoneFile,
    pub extra: Vec<i64>,
}
pub struct Synthetic;
fn extra_instants() -> BoxedStrategy<Vec<i64>> {
    let lo = cal::min_day() * 86_400 + 2 * 86_400;
    let hi = cal::max_day() * 86_400 - 2 * 86_400;
    proptest::collection::vec(prop_oneof![3 => -3_000_000_000i64..6_000_000_000, 2 => lo..hi, 1 => proptest::sample::select(vec![lo, hi, 0])], 2..6).boxed()
}
impl SubCheck for Synthetic {
    type Case = ZCase;
    fn name(&self) -> &'static str {
        "synthetic_tzif"
    }
    fn rule(&self) -> &'static str {
        "case = a zone model (1-6 types, 0-40 transitions spaced or tight, optional fixed/alternate footer, v1/v2/v3) written by the reference TZif writer, probed at t-2..t+2 around every transition and rule transition, at the wall-clock images of both sides of every change, inside gaps/folds and at sparse instants; non-trivial = at least one probe inside a gap or fold (every case has probes within 2 s of a transition unless the model has none)"
    }
    fn strategy(&self) -> Option<BoxedStrategy<ZCase>> {
        Some((zone_file(40), extra_instants()).prop_map(|(file, extra)| ZCase { file, extra }).boxed())
    }
    fn check(&self, c: &ZCase, obs: &mut Obs) -> Result<(), String> {
        let m = &c.file.model;
        classify_model(m, obs);
        let bytes = c.file.bytes();
        let z = call("zone_from_tzif", || hook::zone_from_tzif(&bytes))?.map_err(|e| format!("a file written by the reference TZif writer was rejected: {e}"))?;
        let (inst, wall) = probes(m, &c.extra);
        obs.nt_if(!m.transitions.is_empty(), "probes_at_transitions");
        for u in inst { check_instant(&z, m, u, obs)?; }
        for w in wall { check_wall(&z, m, w, obs)?; }
        Ok(())
    }
}

// ---------------------------------------------------------------------------------------------
#[derive(Clone, Debug, Serialize, Deserialize)]
pub struct RCase {
    pub rule: Rule,
    pub explicit: bool,
    pub years: Vec<i64>,
}
pub struct Rules;

/// F12 signature: rule whose DST start and end fall in the same month
fn same_month(r: &Rule) -> bool {
    if let Rule::Alt { start, end, .. } = r {
        let m = |d: &crate::refmodel::zone::Day| cal::civil_from_days(d.date(2023)).1;
        return m(start) == m(end);
    }
    false
}
impl SubCheck for Rules {
    type Case = RCase;
    fn name(&self) -> &'static str {
        "posix_rules"
    }
    fn rule(&self) -> &'static str {
        "case = a POSIX TZ rule (Mm.w.d / Jn / n day forms, explicit or default times and DST offset, both hemispheres, negative DST, quoted names) whose transitions lie more than one day inside the year, probed around both transitions of several years over the whole supported range and inside the gap and the fold; non-trivial = every alternate-time rule (gap and fold probed)"
    }
    fn strategy(&self) -> Option<BoxedStrategy<RCase>> {
        let years = proptest::collection::vec(prop_oneof![4 => 1900i64..2100, 2 => cal::MIN_YEAR + 2..cal::MAX_YEAR - 2, 1 => proptest::sample::select(vec![cal::MIN_YEAR + 2, cal::MAX_YEAR - 2, 0, -1, 1, 9999, 10_000])], 1..4);
        Some((prop_oneof![6 => alt_rule(false), 1 => fixed_rule(), 1 => crate::gen::zone::short_dst_rule()], any::<bool>(), years).prop_map(|(rule, explicit, years)| RCase { rule, explicit, years }).boxed())
    }
    fn check(&self, c: &RCase, obs: &mut Obs) -> Result<(), String> {
        let s = c.rule.to_tz_string(c.explicit);
        let z = call("zone_from_tz_string", || hook::zone_from_tz_string(&s))?.map_err(|e| format!("TZ rule {s:?} was rejected: {e}"))?;
        let m = match &c.rule {
            Rule::Fixed(t) => Model { types: vec![t.clone()], transitions: vec![], footer: Some(c.rule.clone()) },
            Rule::Alt { std, dst, .. } => Model { types: vec![std.clone(), dst.clone()], transitions: vec![], footer: Some(c.rule.clone()) },
        };
        if let Rule::Alt { std, dst, start, end, .. } = &c.rule {
            obs.nt("alternate_rule");
            obs.label_if(dst.utoff < std.utoff, "negative_dst");
            obs.label_if(start.date(2023) > end.date(2023), "southern_hemisphere");
            obs.label_if(same_month(&c.rule), "start_and_end_in_same_month");
        }
        if same_month(&c.rule) && known::active("F12") {
            obs.excluded_known("F12");
            return Ok(());
        }
        let mut extra: Vec<i64> = vec![];
        for y in &c.years {
            extra.push(cal::days_from_civil(*y, 7, 1) * 86_400 + 43_200);
            extra.push(cal::days_from_civil(*y, 1, 15) * 86_400 + 7);
            extra.push(cal::days_from_civil(*y, 12, 25) * 86_400 + 7);
        }
        let (inst, wall) = probes(&m, &extra);
        if !c.rule.well_inside_year() {
            // daylight time of zero or very short length: the instant direction only (the wall-clock
            // classes of the statement presuppose separate transitions)
            obs.label("short_or_empty_daylight_period_instants_only");
            for u in inst {
                if known::active("F22") {
                    // F22: the wall-clock lookup assumes separate transitions; the offset direction is still judged
                    obs.excluded_known("F22");
                    check_instant_offset(&z, &m, u).map_err(|e| format!("TZ={s}: {e}"))?;
                } else {
                    check_instant(&z, &m, u, obs).map_err(|e| format!("TZ={s}: {e}"))?;
                }
            }
            return Ok(());
        }
        for u in inst { check_instant(&z, &m, u, obs).map_err(|e| format!("TZ={s}: {e}"))?; }
        for w in wall { check_wall(&z, &m, w, obs).map_err(|e| format!("TZ={s}: {e}"))?; }
        Ok(())
    }
}

// ---------------------------------------------------------------------------------------------
pub struct SystemZone;
impl SubCheck for SystemZone {
    type Case = String;
    fn name(&self) -> &'static str {
        "system_zoneinfo"
    }
    fn rule(&self) -> &'static str {
        "case = one file of the system zoneinfo database, read with the independent reader and probed like a synthetic zone (around every transition and around the footer rule's transitions in several years); non-trivial = the file has at least one transition"
    }
    fn check(&self, path: &String, obs: &mut Obs) -> Result<(), String> {
        let bytes = std::fs::read(path).map_err(|e| format!("harness: cannot read {path}: {e}"))?;
        let m = match read_tzif(&bytes) {
            Some(m) => m,
            None => { obs.label("skipped_not_readable_by_reference_reader"); return Ok(()); }
        };
        classify_model(&m, obs);
        obs.nt_if(!m.transitions.is_empty(), "has_transitions");
        if let Some(r) = &m.footer {
            if !r.well_inside_year() { obs.label("skipped_footer_rule_outside_quantifier"); return Ok(()); }
            if same_month(r) && known::active("F12") { obs.excluded_known("F12"); return Ok(()); }
        }
        let z = call("zone_from_tzif", || hook::zone_from_tzif(&bytes))?.map_err(|e| format!("{path} rejected: {e}"))?;
        let extra: Vec<i64> = [1950i64, 2000, 2024, 2040, 2500, 100_000].iter().flat_map(|y| [cal::days_from_civil(*y, 1, 20) * 86_400, cal::days_from_civil(*y, 7, 20) * 86_400 + 3600]).collect();
        let (inst, wall) = probes(&m, &extra);
        for u in inst { check_instant(&z, &m, u, obs).map_err(|e| format!("{path}: {e}"))?; }
        for w in wall { check_wall(&z, &m, w, obs).map_err(|e| format!("{path}: {e}"))?; }
        Ok(())
    }
}

// ---------------------------------------------------------------------------------------------
// The public `Local` routes. `Local` reads the process environment, so every case runs in a child
// process (`pbt c05-child`) whose TZ names the zone; the child reports what every public route to the
// two lookups answers for a list of instants and wall-clock times, the parent judges them.
#[derive(Clone, Debug, Serialize, Deserialize)]
pub struct LReq {
    pub inst: Vec<i64>,
    pub wall: Vec<i64>,
    /// also report what `Local::now()` carries
    #[serde(default)]
    pub now: bool,
}
#[derive(Clone, Debug, Serialize, Deserialize)]
pub struct LResp {
    /// per instant: (route, offset or panic message)
    pub inst: Vec<Vec<(String, Result<i32, String>)>>,
    /// per wall-clock time: (route, offsets earliest first or panic message)
    pub wall: Vec<Vec<(String, Result<Vec<i32>, String>)>>,
    /// `Local::now()`: (its Unix timestamp, the offset it carries, the offset the instant route gives for it)
    #[serde(default)]
    pub now: Option<(i64, i32, i32)>,
    /// the deprecated `Local::today()`: Some(false) when it is not the local date of `Local::now()`
    /// (judged only when the date did not change between two readings of the clock)
    #[serde(default)]
    pub today_ok: Option<bool>,
}

#[allow(deprecated)]
pub fn child(req_json: &str) -> i32 {
    use chrono::{DateTime, Datelike, Local, Offset, TimeZone, Timelike, Utc};
    let req: LReq = match serde_json::from_str(req_json) {
        Ok(r) => r,
        Err(e) => { eprintln!("c05-child: bad request: {e}"); return 2; }
    };
    let g = |f: &mut dyn FnMut() -> i32| -> Result<i32, String> { crate::guard::guard(|| f()) };
    let mlt = |r: MappedLocalTime<i32>| match r { MappedLocalTime::None => vec![], MappedLocalTime::Single(a) => vec![a], MappedLocalTime::Ambiguous(a, b) => vec![a, b] };
    let mut resp = LResp { inst: vec![], wall: vec![], now: None, today_ok: None };
    if req.now {
        let n = Local::now();
        resp.now = Some((n.timestamp(), n.offset().fix().local_minus_utc(), Local.offset_from_utc_datetime(&n.naive_utc()).fix().local_minus_utc()));
        let before = Local::now().date_naive();
        let today = Local::today().naive_local();
        let after = Local::now().date_naive();
        if before == after { resp.today_ok = Some(today == before); }
    }
    let mut prev: Option<chrono::NaiveDateTime> = None;
    for &u in &req.inst {
        let mut rs: Vec<(String, Result<i32, String>)> = vec![];
        if let Some(n) = ndt_of_unix(u) {
            // arriving at this instant by arithmetic from the previous probe (usually on the other side of a
            // transition): the value carries the offset in force at the instant it arrives at
            if let Some(p) = prev {
                let d = n.signed_duration_since(p);
                let chk = move |x: DateTime<Local>| if x.naive_utc() != n { i32::MIN } else { x.offset().fix().local_minus_utc() };
                rs.push(("arithmetic: previous + d".into(), g(&mut || chk(Local.from_utc_datetime(&p) + d))));
                rs.push(("arithmetic: previous - (-d)".into(), g(&mut || chk(Local.from_utc_datetime(&p) - (-d)))));
                rs.push(("arithmetic: previous += d".into(), g(&mut || { let mut x = Local.from_utc_datetime(&p); x += d; chk(x) })));
                rs.push(("arithmetic: previous -= -d".into(), g(&mut || { let mut x = Local.from_utc_datetime(&p); x -= -d; chk(x) })));
                rs.push(("arithmetic: checked_add_signed".into(), g(&mut || Local.from_utc_datetime(&p).checked_add_signed(d).map(chk).unwrap_or(i32::MIN + 1))));
                rs.push(("arithmetic: checked_sub_signed".into(), g(&mut || Local.from_utc_datetime(&p).checked_sub_signed(-d).map(chk).unwrap_or(i32::MIN + 1))));
                if let Ok(sd) = d.to_std() {
                    rs.push(("arithmetic: previous + std Duration".into(), g(&mut || chk(Local.from_utc_datetime(&p) + sd))));
                    rs.push(("arithmetic: previous += std Duration".into(), g(&mut || { let mut x = Local.from_utc_datetime(&p); x += sd; chk(x) })));
                } else if let Ok(sd) = (-d).to_std() {
                    rs.push(("arithmetic: previous - std Duration".into(), g(&mut || chk(Local.from_utc_datetime(&p) - sd))));
                    rs.push(("arithmetic: previous -= std Duration".into(), g(&mut || { let mut x = Local.from_utc_datetime(&p); x -= sd; chk(x) })));
                }
            }
            prev = Some(n);
            rs.push(("offset_from_utc_datetime".into(), g(&mut || Local.offset_from_utc_datetime(&n).fix().local_minus_utc())));
            rs.push(("from_utc_datetime".into(), g(&mut || { let d = Local.from_utc_datetime(&n); if d.naive_utc() != n { return i32::MIN; } d.offset().fix().local_minus_utc() })));
            rs.push(("with_timezone".into(), g(&mut || { let d = Utc.from_utc_datetime(&n).with_timezone(&Local); if d.naive_utc() != n { return i32::MIN; } d.offset().fix().local_minus_utc() })));
            rs.push(("From<DateTime<Utc>>".into(), g(&mut || DateTime::<Local>::from(Utc.from_utc_datetime(&n)).offset().fix().local_minus_utc())));
            rs.push(("timestamp_opt".into(), g(&mut || match Local.timestamp_opt(u, 0) { MappedLocalTime::Single(d) => d.offset().fix().local_minus_utc(), _ => i32::MIN })));
            // the same instant plus half a second: the offset in force does not depend on the sub-second part
            if let Some(n2) = n.checked_add_signed(chrono::TimeDelta::milliseconds(500)) {
                rs.push(("offset_from_utc_datetime (+0.5 s)".into(), g(&mut || Local.offset_from_utc_datetime(&n2).fix().local_minus_utc())));
                rs.push(("from_utc_datetime (+0.5 s)".into(), g(&mut || { let d = Local.from_utc_datetime(&n2); if d.naive_utc() != n2 { return i32::MIN; } d.offset().fix().local_minus_utc() })));
            }
            // text and serde round trips of the Local value keep the instant and find the same offset
            // (whole-minute offsets only: the text forms cannot carry offset seconds)
            let here = Local.offset_from_utc_datetime(&n).fix().local_minus_utc();
            if here % 60 == 0 {
                rs.push(("Display -> FromStr".into(), g(&mut || match Local.from_utc_datetime(&n).to_string().parse::<DateTime<Local>>() { Ok(d) if d.naive_utc() == n => d.offset().fix().local_minus_utc(), _ => i32::MIN })));
                rs.push(("serde_json round trip".into(), g(&mut || match serde_json::to_string(&Local.from_utc_datetime(&n)).ok().and_then(|t| serde_json::from_str::<DateTime<Local>>(&t).ok()) { Some(d) if d.naive_utc() == n => d.offset().fix().local_minus_utc(), _ => i32::MIN })));
                rs.push(("bincode round trip".into(), g(&mut || match bincode::serialize(&Local.from_utc_datetime(&n)).ok().and_then(|t| bincode::deserialize::<DateTime<Local>>(&t).ok()) { Some(d) if d.naive_utc() == n => d.offset().fix().local_minus_utc(), _ => i32::MIN })));
            }
            // deprecated date routes: the offset at 00:00:00 UTC of the instant's UTC date
            rs.push(("offset_from_utc_date".into(), g(&mut || Local.offset_from_utc_date(&n.date()).fix().local_minus_utc())));
            rs.push(("from_utc_date".into(), g(&mut || Local.from_utc_date(&n.date()).offset().fix().local_minus_utc())));
        }
        resp.inst.push(rs);
    }
    for &w in &req.wall {
        let mut rs: Vec<(String, Result<Vec<i32>, String>)> = vec![];
        if let Some(n) = ndt_of_unix(w) {
            let gv = |f: &mut dyn FnMut() -> Vec<i32>| -> Result<Vec<i32>, String> { crate::guard::guard(|| f()) };
            rs.push(("offset_from_local_datetime".into(), gv(&mut || mlt(Local.offset_from_local_datetime(&n).map(|o| o.local_minus_utc())))));
            rs.push(("from_local_datetime".into(), gv(&mut || mlt(Local.from_local_datetime(&n).map(|d| if d.naive_local() != n { i32::MIN } else { d.offset().fix().local_minus_utc() })))));
            if let Some(n2) = n.checked_add_signed(chrono::TimeDelta::milliseconds(500)) {
                rs.push(("from_local_datetime (+0.5 s)".into(), gv(&mut || mlt(Local.from_local_datetime(&n2).map(|d| if d.naive_local() != n2 { i32::MIN } else { d.offset().fix().local_minus_utc() })))));
            }
            rs.push(("and_local_timezone".into(), gv(&mut || mlt(n.and_local_timezone(Local).map(|d| d.offset().fix().local_minus_utc())))));
            rs.push(("with_ymd_and_hms".into(), gv(&mut || mlt(Local.with_ymd_and_hms(n.year(), n.month(), n.day(), n.hour(), n.minute(), n.second()).map(|d| d.offset().fix().local_minus_utc())))));
            // deprecated date routes: local midnight of the wall-clock date
            rs.push(("offset_from_local_date".into(), gv(&mut || mlt(Local.offset_from_local_date(&n.date()).map(|o| o.local_minus_utc())))));
            rs.push(("from_local_date".into(), gv(&mut || mlt(Local.from_local_date(&n.date()).map(|d| d.offset().fix().local_minus_utc())))));
            rs.push(("ymd_opt".into(), gv(&mut || mlt(Local.ymd_opt(n.year(), n.month(), n.day()).map(|d| d.offset().fix().local_minus_utc())))));
            // deprecated Date<Local> + time of day: the zone is asked again for the full wall-clock time
            // (sentinel i32::MAX = the date itself has no single offset, nothing to judge)
            rs.push(("date.and_time".into(), gv(&mut || match Local.from_local_date(&n.date()).single() {
                None => vec![i32::MAX],
                Some(d) => d.and_time(n.time()).map(|x| if x.naive_local() != n { i32::MIN } else { x.offset().fix().local_minus_utc() }).into_iter().collect(),
            })));
            rs.push(("date.and_hms_opt".into(), gv(&mut || match Local.from_local_date(&n.date()).single() {
                None => vec![i32::MAX],
                Some(d) => d.and_hms_opt(n.hour(), n.minute(), n.second()).map(|x| if x.naive_local() != n.with_nanosecond(0).unwrap_or(n) { i32::MIN } else { x.offset().fix().local_minus_utc() }).into_iter().collect(),
            })));
        }
        resp.wall.push(rs);
    }
    println!("{}", serde_json::to_string(&resp).unwrap());
    0
}

#[derive(Clone, Debug, Serialize, Deserialize)]
pub enum TzSrc {
    /// POSIX rule in TZ
    Rule(Rule, bool),
    /// file of the system database, named relative to the zoneinfo directory; colon prefix or not
    System(String, bool),
    /// generated zone file written to a scratch directory, named by absolute path; colon prefix or not
    File(ZoneFile, bool),
    /// a zone with one change `hours` (may be negative) after the current hour, offsets a -> b: the only
    /// way to have `Local::now()` look at an instant near a transition
    NearNow { hours: i8, a: i32, b: i32 },
}
#[derive(Clone, Debug, Serialize, Deserialize)]
pub struct LCase {
    pub tz: TzSrc,
    pub extra: Vec<i64>,
}
pub struct LocalRoutes;
impl SubCheck for LocalRoutes {
    type Case = LCase;
    fn name(&self) -> &'static str {
        "local_routes"
    }
    fn rule(&self) -> &'static str {
        "case = a zone named through TZ (generated POSIX rule, a file of the system database by relative name, or a generated TZif file - up to 12,000 transitions - by absolute path) in a child process; every public route from Local to the two lookups (offset_from_utc_datetime, from_utc_datetime, with_timezone, From<DateTime<Utc>>, timestamp_opt, the Display/FromStr, serde_json and bincode round trips of the Local value, offset_from_local_datetime, from_local_datetime, and_local_timezone, with_ymd_and_hms, the deprecated date routes at 00:00:00 of the date, the deprecated Date<Local> + time of day, and arriving at the instant by +, -, +=, -=, checked_add/sub_signed or a std Duration from the previous probe) answers what the zone data prescribe, probed around the transitions, inside gaps and folds and at the midnights next to them; non-trivial = a probe inside a gap or fold, or a midnight within a day of a transition"
    }
    fn strategy(&self) -> Option<BoxedStrategy<LCase>> {
        let files: Vec<String> = system_files().into_iter().filter_map(|p| p.strip_prefix("/usr/share/zoneinfo/").map(String::from)).filter(|n| !n.starts_with("right/") && !n.starts_with("posix/")).collect();
        let years = proptest::collection::vec(prop_oneof![4 => 1900i64..2100, 1 => cal::MIN_YEAR + 2..cal::MAX_YEAR - 2], 1..3);
        let rule = (alt_rule(false), any::<bool>(), years).prop_map(|(r, e, ys)| LCase { tz: TzSrc::Rule(r, e), extra: ys.into_iter().map(|y| cal::days_from_civil(y, 7, 1) * 86_400 + 43_200).collect() });
        if files.is_empty() {
            return Some(rule.boxed());
        }
        let sys = (proptest::sample::select(files), any::<bool>(), 1950i64..2037).prop_map(|(n, colon, y)| LCase { tz: TzSrc::System(n, colon), extra: vec![cal::days_from_civil(y, 7, 20) * 86_400] });
        // generated files, a few of them far larger than any real zone file (tens of kilobytes)
        let file = (prop_oneof![8 => zone_file(40), 1 => zone_file(3000), 1 => zone_file(12_000)], any::<bool>(), extra_instants()).prop_map(|(f, colon, extra)| LCase { tz: TzSrc::File(f, colon), extra });
        let near_now = (-14i8..=14, (-50i32..=56, -8i32..=8).prop_filter_map("no change", |(q, d)| if d != 0 { Some((q * 900, (q * 900 + d * 900).clamp(-86_000, 86_000))) } else { None }))
            .prop_map(|(hours, (a, b))| LCase { tz: TzSrc::NearNow { hours, a, b }, extra: vec![] });
        Some(prop_oneof![6 => rule, 2 => sys, 2 => file, 1 => near_now].boxed())
    }
    fn check(&self, c: &LCase, obs: &mut Obs) -> Result<(), String> {
        let mut scratch: Option<std::path::PathBuf> = None;
        let mut want_now = false;
        let (tzval, m) = match &c.tz {
            TzSrc::Rule(rule, explicit) => {
                let m = match rule {
                    Rule::Fixed(t) => Model { types: vec![t.clone()], transitions: vec![], footer: Some(rule.clone()) },
                    Rule::Alt { std, dst, .. } => Model { types: vec![std.clone(), dst.clone()], transitions: vec![], footer: Some(rule.clone()) },
                };
                (rule.to_tz_string(*explicit), m)
            }
            TzSrc::System(name, colon) => {
                let bytes = std::fs::read(format!("/usr/share/zoneinfo/{name}")).map_err(|e| format!("harness: cannot read {name}: {e}"))?;
                let m = match read_tzif(&bytes) { Some(m) => m, None => { obs.label("skipped_not_readable_by_reference_reader"); return Ok(()); } };
                if let Some(r) = &m.footer { if !r.well_inside_year() { obs.label("skipped_footer_rule_outside_quantifier"); return Ok(()); } }
                (if *colon { format!(":{name}") } else { name.clone() }, m)
            }
            TzSrc::NearNow { hours, a, b } => {
                use crate::refmodel::zone::{write_tzif, Indicators, Version, ZType};
                let now = std::time::SystemTime::now().duration_since(std::time::UNIX_EPOCH).map_err(|e| format!("harness: {e}"))?.as_secs() as i64;
                let t = now - now % 3600 + *hours as i64 * 3600;
                let m = Model { types: vec![ZType { utoff: *a, isdst: false, abbr: "AAA".into() }, ZType { utoff: *b, isdst: false, abbr: "BBB".into() }], transitions: vec![(t, 1)], footer: None };
                let dir = crate::props::c18::work_dir().join("c05");
                std::fs::create_dir_all(&dir).map_err(|e| format!("harness: {e}"))?;
                let path = dir.join(format!("now-{}-{:?}.tzif", std::process::id(), std::thread::current().id()).replace(['(', ')'], ""));
                std::fs::write(&path, write_tzif(&m, Version::V2, Indicators::None, false)).map_err(|e| format!("harness: {e}"))?;
                scratch = Some(path.clone());
                want_now = true;
                (path.display().to_string(), m)
            }
            TzSrc::File(f, colon) => {
                let bytes = f.bytes();
                obs.label_if(bytes.len() > 65_536, "file_larger_than_64_KiB");
                let dir = crate::props::c18::work_dir().join("c05");
                std::fs::create_dir_all(&dir).map_err(|e| format!("harness: {e}"))?;
                let path = dir.join(format!("z-{}-{:?}.tzif", std::process::id(), std::thread::current().id()).replace(['(', ')'], ""));
                std::fs::write(&path, &bytes).map_err(|e| format!("harness: {e}"))?;
                scratch = Some(path.clone());
                (if *colon { format!(":{}", path.display()) } else { path.display().to_string() }, f.model.clone())
            }
        };
        if let Some(r) = &m.footer { if !r.well_inside_year() { obs.label("skipped_rule_outside_quantifier"); return Ok(()); } }
        obs.label(match c.tz { TzSrc::Rule(..) => "posix_rule", TzSrc::System(..) => "system_file", TzSrc::File(..) => "generated_file", TzSrc::NearNow { .. } => "zone_changing_near_now" });
        let (mut inst, mut wall) = probes(&m, &c.extra);
        // the midnights around every probed change point (the deprecated date routes look there)
        let pts: Vec<i64> = inst.iter().copied().step_by(5).take(24).collect();
        for t in pts {
            let d0 = t.div_euclid(86_400) * 86_400;
            for d in [d0, d0 + 86_400] { inst.push(d + 1); wall.push(d + 1); }
        }
        inst.retain(|u| ndt_of_unix(*u).is_some());
        wall.retain(|w| ndt_of_unix(*w).is_some());
        inst.truncate(400);
        wall.truncate(400);
        let req = serde_json::to_string(&LReq { inst: inst.clone(), wall: wall.clone(), now: want_now }).map_err(|e| format!("harness: {e}"))?;
        let exe = std::env::current_exe().map_err(|e| format!("harness: {e}"))?;
        let out = std::process::Command::new(exe).arg("c05-child").arg(&req).env("TZ", &tzval).output().map_err(|e| format!("harness: cannot spawn child: {e}"));
        if let Some(p) = &scratch { let _ = std::fs::remove_file(p); }
        let out = out?;
        let tzval = if scratch.is_some() { format!("<generated file, {} transitions>", m.transitions.len()) } else { tzval };
        if !out.status.success() {
            return Err(format!("TZ={tzval}: child process failed ({}): {}", out.status, String::from_utf8_lossy(&out.stderr).chars().take(300).collect::<String>()));
        }
        let resp: LResp = serde_json::from_slice(&out.stdout).map_err(|e| format!("harness: bad child output: {e}"))?;
        if resp.inst.len() != inst.len() || resp.wall.len() != wall.len() { return Err("harness: child answered a different number of probes".into()); }
        if want_now {
            obs.nt("local_now_near_a_transition");
            let (ts, carried, by_instant) = resp.now.ok_or("harness: child did not report Local::now()")?;
            ensure!(resp.today_ok != Some(false), "Local::today() is not the date Local::now() shows in the zone (zone offset {} at instant {ts})", m.offset_at(ts));
            ensure!(carried == m.offset_at(ts) && by_instant == carried, "Local::now() at instant {ts} carries offset {carried}; the instant route gives {by_instant}, the zone data prescribe {}", m.offset_at(ts));
        }
        for (u, routes) in inst.iter().zip(&resp.inst) {
            for (route, r) in routes {
                let at = if route.ends_with("_date") { u.div_euclid(86_400) * 86_400 } else { *u };
                let exp = m.offset_at(at);
                obs.nt_if(route.ends_with("_date") && m.change_points_near(at).iter().any(|p| (p - at).abs() <= 86_400), "midnight_within_a_day_of_a_transition");
                match r {
                    Ok(got) => ensure!(*got == exp, "TZ={tzval}: Local route {route} for instant {u}: got offset {got}, zone data prescribe {exp} (at {at})"),
                    Err(p) => return Err(format!("TZ={tzval}: Local route {route} for instant {u} panicked: {p}")),
                }
            }
        }
        for (w, routes) in wall.iter().zip(&resp.wall) {
            for (route, r) in routes {
                let at = if route.ends_with("_date") || route == "ymd_opt" { w.div_euclid(86_400) * 86_400 } else { *w };
                let got = match r { Ok(g) => g, Err(p) => return Err(format!("TZ={tzval}: Local route {route} for wall clock {w} panicked: {p}")) };
                if exempt(&m, at) { obs.label("exempt_boundary_second"); continue; }
                let pre = m.preimage(at);
                if pre.len() > 2 { obs.label("wall_three_or_more_times_not_claimed"); continue; }
                obs.nt_if(pre.len() != 1, "gap_or_fold");
                let mut exp: Vec<i32> = pre.iter().map(|u| (at - u) as i32).collect();
                if route.starts_with("date.and_") {
                    if *got == vec![i32::MAX] { obs.label("date_without_single_offset"); continue; }
                    // Option-valued: the unique reading or nothing
                    if exp.len() != 1 { exp.clear(); }
                }
                ensure!(*got == exp, "TZ={tzval}: Local route {route} for wall clock {w} (looked up at {at}): got offsets {got:?}, zone data prescribe {exp:?}");
            }
        }
        Ok(())
    }
}

pub fn system_files() -> Vec<String> {
    fn walk(dir: &std::path::Path, out: &mut Vec<String>) {
        if let Ok(rd) = std::fs::read_dir(dir) {
            let mut es: Vec<_> = rd.filter_map(|e| e.ok()).collect();
            es.sort_by_key(|e| e.path());
            for e in es {
                let p = e.path();
                if p.is_dir() { walk(&p, out); } else if let Ok(mut f) = std::fs::File::open(&p) {
                    use std::io::Read;
                    let mut magic = [0u8; 4];
                    if f.read_exact(&mut magic).is_ok() && &magic == b"TZif" { out.push(p.to_string_lossy().into_owned()); }
                }
            }
        }
    }
    let mut v = vec![];
    walk(std::path::Path::new("/usr/share/zoneinfo"), &mut v);
    v
}

pub fn subs() -> Vec<Box<dyn DynSub>> {
    vec![Box::new(Synthetic), Box::new(Rules), Box::new(SystemZone), Box::new(LocalRoutes)]
}

/// F11: every fold is returned latest first
fn probe_f11() -> bool {
    match hook::zone_from_tz_string("CET-1CEST,M3.5.0,M10.5.0/3") {
        Ok(z) => {
            let n = chrono::NaiveDate::from_ymd_opt(2023, 10, 29).unwrap().and_hms_opt(2, 30, 0).unwrap();
            matches!(hook::offsets_for_local(&z, n), Ok(MappedLocalTime::Ambiguous(a, b)) if a < b)
        }
        Err(_) => false,
    }
}
/// F12: start and end in the same month take the wrong branch
fn probe_f12() -> bool {
    match hook::zone_from_tz_string("AAA0BBB,M3.1.0,M3.4.0") {
        Ok(z) => {
            let n = chrono::NaiveDate::from_ymd_opt(2023, 12, 25).unwrap().and_hms_opt(0, 0, 7).unwrap();
            !matches!(hook::offsets_for_local(&z, n), Ok(MappedLocalTime::Single(0)))
        }
        Err(_) => false,
    }
}

/// F22: daylight time of zero length still carves a gap out of the wall clock
fn probe_f22() -> bool {
    match hook::zone_from_tz_string("AAA0DDD-0:30,M3.2.0/1,M3.2.0/1:30") {
        Ok(z) => {
            let n = chrono::NaiveDate::from_ymd_opt(2023, 3, 12).unwrap().and_hms_opt(1, 0, 1).unwrap();
            !matches!(hook::offsets_for_local(&z, n), Ok(MappedLocalTime::Single(0)))
        }
        Err(_) => false,
    }
}

pub fn run(ctx: &Ctx) {
    known::activate("F22", probe_f22());
    if known::active("F22") { ctx.known_finding("F22", "a POSIX rule whose daylight time ends less than two days after it starts (down to zero length) is looked up on the wall clock as if the two transitions were far apart: TZ=AAA0DDD-0:30,M3.2.0/1,M3.2.0/1:30 (daylight time never applies), local 2023-03-12 01:00:01 -> not Single(+00:00)"); }
    known::activate("F11", probe_f11());
    known::activate("F12", probe_f12());
    if known::active("F11") { ctx.known_finding("F11", "every repeated wall-clock time is returned latest first: TZ=CET-1CEST,M3.5.0,M10.5.0/3, local 2023-10-29 02:30 -> Ambiguous(+01:00, +02:00)"); }
    if known::active("F12") { ctx.known_finding("F12", "POSIX rules whose DST start and end fall in the same month take the wrong hemisphere branch: TZ=AAA0BBB,M3.1.0,M3.4.0, local 2023-12-25 00:00:07 -> not Single(+00:00)"); }
    ctx.assume("zone offsets are generated strictly inside (-24 h, 24 h), the documented range of FixedOffset");
    ctx.assume("wall-clock times that occur three or more times (tight transitions) are not claimed by the statement and only checked not to panic");
    ctx.run_prop(&Synthetic, ctx.n(150_000, 10_000_000));
    ctx.run_prop(&Rules, ctx.n(150_000, 10_000_000));
    let files = system_files();
    let pick: Vec<String> = match ctx.tier {
        crate::engine::Tier::Thorough => files,
        crate::engine::Tier::Quick => {
            // a seed-chosen slice of 120 files
            let n = files.len().max(1);
            let start = (ctx.seed as usize).wrapping_mul(37) % n;
            (0..120.min(n)).map(|i| files[(start + i * 7) % n].clone()).collect()
        }
    };
    ctx.run_cases(&SystemZone, pick);
    ctx.run_prop(&LocalRoutes, ctx.n(2_000, 150_000));
}
