//! C18 Local uses the zone the environment names, and notices changes.
//! Each history runs in its own child process (`pbt c18-child`): the environment is process-global.
use crate::engine::{Ctx, DynSub, Obs, SubCheck};
use crate::refmodel::cal;
use crate::refmodel::inst::Ndt;
use crate::refmodel::zone::{parse_tz_string, read_tzif, write_tzif, Indicators, Model, Rule, Version, ZType};
use crate::{conv, ensure};
use chrono::{Local, MappedLocalTime, Offset, TimeZone};
use proptest::prelude::*;
use serde::{Deserialize, Serialize};
use std::io::Write;
use std::path::PathBuf;
use std::time::{Duration, Instant};

pub const T0: i64 = 1_700_000_000; // 2023-11-14T22:13:20Z: transition instant of every custom zone
const N_CUSTOM: usize = 8;
// EST5EDT exists as a file and is also a (rule-less) POSIX name: the file must win
// the last one names its file through a parent-directory component: still a name under the zoneinfo directory
const SYSTEM_ZONES: [&str; 6] = ["Europe/Berlin", "EST5EDT", "Asia/Kolkata", "Australia/Lord_Howe", "Pacific/Chatham", "Europe/../Asia/Tokyo"];
const RULES: [&str; 4] = ["AAA-1:17", "XYZ3:33:03", "<+0545>-5:45", "QQQ8RRR,M3.2.0,M11.1.0"];
const GARBAGE: [&str; 5] = ["!!garbage", "Not/AZone", ":", "EST5EDT,bogus", ":/nonexistent/verif/zone"];

#[derive(Clone, Debug, Serialize, Deserialize, PartialEq)]
pub enum Spec {
    AbsPath(usize),
    ColonAbsPath(usize),
    ZoneName(usize),
    ColonZoneName(usize),
    Rule(usize),
    /// a POSIX rule behind a colon: a colon announces a file name, and there is no such file
    ColonRule(usize),
    Empty,
    Garbage(usize),
    Unset,
}

#[derive(Clone, Debug, Serialize, Deserialize)]
pub enum Op {
    SetTz(Spec),
    /// milliseconds
    Wait(u32),
    /// probe index; to_local = instant -> wall clock, else wall clock -> instant; on a freshly spawned thread?
    Convert { probe: u8, to_local: bool, new_thread: bool },
}

pub fn work_dir() -> PathBuf {
    let exe = std::env::current_exe().unwrap_or_else(|_| PathBuf::from("/verif/target/verif/pbt"));
    exe.parent().and_then(|p| p.parent()).map(|p| p.join("work").join("c18")).unwrap_or_else(|| PathBuf::from("/verif/target/work/c18"))
}
fn custom_model(k: usize) -> Model {
    let a = 1000 * k as i32 + 137;
    let b = if k % 2 == 0 { a + 4000 + 10 * k as i32 } else { a - 3000 - 10 * k as i32 };
    Model {
        types: vec![ZType { utoff: a, isdst: false, abbr: format!("A{k}A") }, ZType { utoff: b, isdst: k % 2 == 0, abbr: format!("B{k}B") }],
        transitions: vec![(T0, 1)],
        footer: if k % 3 == 0 { Some(Rule::Fixed(ZType { utoff: b, isdst: false, abbr: format!("B{k}B") })) } else { None },
    }
}
fn custom_path(k: usize) -> PathBuf {
    // one of the files sits at a path that ends like the system's own zone file: it is still the named file
    if k == 5 { return work_dir().join("host").join("etc").join("localtime"); }
    // and one at a path with a comma in it: a path is a path, whatever rule strings look like
    if k == 6 { return work_dir().join("dir,with,M3.2.0").join("z6.tzif"); }
    work_dir().join(format!("z{k}.tzif"))
}
pub fn ensure_files() -> Result<(), String> {
    let d = work_dir();
    std::fs::create_dir_all(&d).map_err(|e| format!("harness: {e}"))?;
    ensure_decoys()?;
    for k in 0..N_CUSTOM {
        let p = custom_path(k);
        if let Some(parent) = p.parent() { std::fs::create_dir_all(parent).map_err(|e| format!("harness: {e}"))?; }
        let mut m = custom_model(k);
        // the footer type must equal the last transition's type (dst flag false for a fixed rule)
        if m.footer.is_some() { m.types[1].isdst = false; }
        let bytes = write_tzif(&m, if k % 2 == 0 { Version::V2 } else { Version::V3 }, Indicators::None, false);
        if std::fs::read(&p).ok().as_deref() != Some(&bytes[..]) {
            let tmp = d.join(format!("z{k}.{}.tmp", std::process::id()));
            std::fs::write(&tmp, &bytes).map_err(|e| format!("harness: {e}"))?;
            std::fs::rename(&tmp, &p).map_err(|e| format!("harness: {e}"))?;
        }
    }
    Ok(())
}

/// working directory of every child: it holds readable decoy files under the relative names the
/// histories use (zone names, rule strings, garbage). Relative names are "relative to the system zoneinfo
/// directories", never to the working directory, so none of these may ever be read.
pub fn decoy_dir() -> PathBuf {
    work_dir().join("decoy")
}
fn ensure_decoys() -> Result<(), String> {
    let d = decoy_dir();
    let bytes = write_tzif(&custom_model(1), Version::V2, Indicators::None, false);
    let names = SYSTEM_ZONES.iter().chain(RULES.iter()).chain(GARBAGE.iter().filter(|g| !g.starts_with(':')));
    for n in names {
        let p = d.join(n);
        if let Some(parent) = p.parent() { std::fs::create_dir_all(parent).map_err(|e| format!("harness: {e}"))?; }
        if std::fs::read(&p).ok().as_deref() != Some(&bytes[..]) {
            let tmp = d.join(format!("decoy.{}.tmp", std::process::id()));
            std::fs::write(&tmp, &bytes).map_err(|e| format!("harness: {e}"))?;
            std::fs::rename(&tmp, &p).map_err(|e| format!("harness: {e}"))?;
        }
    }
    Ok(())
}

fn utc_model() -> Model {
    Model { types: vec![ZType { utoff: 0, isdst: false, abbr: "UTC".into() }], transitions: vec![], footer: None }
}
/// the zone the environment names, by the reference (file, name under the zoneinfo directory, rule,
/// UTC for "", and for unreadable sources the system zone, then UTC)
pub fn resolve(spec: &Spec) -> Model {
    let system = || std::fs::read("/etc/localtime").ok().and_then(|b| read_tzif(&b)).unwrap_or_else(utc_model);
    match spec {
        Spec::AbsPath(k) | Spec::ColonAbsPath(k) => { let mut m = custom_model(*k); if m.footer.is_some() { m.types[1].isdst = false; } m }
        Spec::ZoneName(i) | Spec::ColonZoneName(i) => std::fs::read(format!("/usr/share/zoneinfo/{}", SYSTEM_ZONES[*i])).ok().and_then(|b| read_tzif(&b)).unwrap_or_else(system),
        Spec::Rule(i) => match parse_tz_string(RULES[*i], false) {
            Some(r) => Model { types: match &r { Rule::Fixed(t) => vec![t.clone()], Rule::Alt { std, dst, .. } => vec![std.clone(), dst.clone()] }, transitions: vec![], footer: Some(r) },
            None => system(),
        },
        Spec::Empty => utc_model(),
        Spec::Garbage(_) | Spec::Unset | Spec::ColonRule(_) => system(),
    }
}
pub fn env_value(spec: &Spec) -> Option<String> {
    Some(match spec {
        Spec::AbsPath(k) => custom_path(*k).to_string_lossy().into_owned(),
        Spec::ColonAbsPath(k) => format!(":{}", custom_path(*k).to_string_lossy()),
        Spec::ZoneName(i) => SYSTEM_ZONES[*i].to_string(),
        Spec::ColonZoneName(i) => format!(":{}", SYSTEM_ZONES[*i]),
        Spec::Rule(i) => RULES[*i].to_string(),
        Spec::ColonRule(i) => format!(":{}", RULES[*i]),
        Spec::Empty => String::new(),
        Spec::Garbage(i) => GARBAGE[*i].to_string(),
        Spec::Unset => return None,
    })
}

/// probes: instants (for to_local) and wall-clock seconds (for from_local); boundary seconds avoided
fn probe_instant(p: u8) -> i64 {
    [T0 - 1, T0, T0 + 1, T0 - 50_000, T0 + 50_000, T0 - 86_400 * 200, T0 + 86_400 * 170, T0 + 7][p as usize % 8]
}
fn probe_wall(p: u8) -> i64 {
    // well before, well after, and a sweep of offsets that lands inside the gap/fold of several custom zones
    // none of these equals T0 + A_k or T0 + B_k of a custom zone (the boundary seconds C05 exempts)
    [T0 - 200_000, T0 + 200_000, T0 + 500, T0 + 2500, T0 + 1637, T0 + 3937, T0 + 5000, T0 + 7000][p as usize % 8]
}

#[derive(Clone, Debug, Serialize, Deserialize)]
pub struct Observation {
    /// index of the op in the history
    pub op: usize,
    pub t_before_ms: u64,
    pub t_after_ms: u64,
    /// offsets returned: one for to_local; 0, 1 or 2 for from_local
    pub offsets: Vec<i32>,
    pub panicked: Option<String>,
}

fn convert(probe: u8, to_local: bool) -> Result<Vec<i32>, String> {
    crate::guard::guard(|| {
        if to_local {
            let u = probe_instant(probe);
            let n = conv::ndt(Ndt { day: u.div_euclid(86_400), secs: u.rem_euclid(86_400) as u32, frac: 0 });
            let dt = Local.from_utc_datetime(&n);
            vec![dt.offset().fix().local_minus_utc()]
        } else {
            let w = probe_wall(probe);
            let n = conv::ndt(Ndt { day: w.div_euclid(86_400), secs: w.rem_euclid(86_400) as u32, frac: 0 });
            match Local.from_local_datetime(&n) {
                MappedLocalTime::None => vec![],
                MappedLocalTime::Single(a) => vec![a.offset().fix().local_minus_utc()],
                MappedLocalTime::Ambiguous(a, b) => vec![a.offset().fix().local_minus_utc(), b.offset().fix().local_minus_utc()],
            }
        }
    })
}

/// child process: execute one history, print one JSON observation per conversion
pub fn child(history_json: &str) -> i32 {
    let ops: Vec<Op> = match serde_json::from_str(history_json) {
        Ok(o) => o,
        Err(e) => { eprintln!("c18-child: bad history: {e}"); return 2; }
    };
    let start = Instant::now();
    let ms = |i: Instant| i.duration_since(start).as_millis() as u64;
    let mut out = std::io::stdout();
    // timestamps of environment changes, reported as pseudo-observations (op index, time, no offsets)
    for (i, op) in ops.iter().enumerate() {
        match op {
            Op::SetTz(s) => {
                let before = Instant::now();
                match env_value(s) {
                    Some(v) => std::env::set_var("TZ", v),
                    None => std::env::remove_var("TZ"),
                }
                let after = Instant::now();
                let _ = writeln!(out, "{}", serde_json::to_string(&Observation { op: i, t_before_ms: ms(before), t_after_ms: ms(after), offsets: vec![], panicked: None }).unwrap());
            }
            Op::Wait(m) => std::thread::sleep(Duration::from_millis(*m as u64)),
            Op::Convert { probe, to_local, new_thread } => {
                let before = Instant::now();
                let (p, t) = (*probe, *to_local);
                let r = if *new_thread { std::thread::spawn(move || convert(p, t)).join().unwrap_or_else(|_| Err("thread panicked".into())) } else { convert(p, t) };
                let after = Instant::now();
                let o = match r {
                    Ok(offsets) => Observation { op: i, t_before_ms: ms(before), t_after_ms: ms(after), offsets, panicked: None },
                    Err(m) => Observation { op: i, t_before_ms: ms(before), t_after_ms: ms(after), offsets: vec![], panicked: Some(m) },
                };
                let _ = writeln!(out, "{}", serde_json::to_string(&o).unwrap());
            }
        }
    }
    0
}

/// what a zone answers for a probe
fn predict(m: &Model, probe: u8, to_local: bool) -> Vec<i32> {
    if to_local {
        vec![m.offset_at(probe_instant(probe))]
    } else {
        let w = probe_wall(probe);
        m.preimage(w).into_iter().map(|u| (w - u) as i32).collect()
    }
}

pub struct History;
impl SubCheck for History {
    type Case = Vec<Op>;
    fn name(&self) -> &'static str {
        "histories"
    }
    fn rule(&self) -> &'static str {
        "case = a sequence of (set/unset TZ to an absolute file path, :path, zone name, :name, POSIX rule, empty, garbage or missing file; wait < 1 s or >= 1 s; convert instant->wall or wall->instant on the long-lived thread or on a freshly spawned thread), run in a dedicated child process; every conversion must be answered entirely by one zone: the current one on a new thread or when >= 1 s (plus 60 ms margin) have passed since the last change, else any zone that was in force during the last second; non-trivial = a change followed by conversions on both sides of the 1 s boundary, a source-kind change, or a new-thread conversion after a change"
    }
    fn strategy(&self) -> Option<BoxedStrategy<Vec<Op>>> {
        let spec = prop_oneof![
            3 => (0usize..N_CUSTOM).prop_map(Spec::AbsPath),
            2 => (0usize..N_CUSTOM).prop_map(Spec::ColonAbsPath),
            2 => (0usize..SYSTEM_ZONES.len()).prop_map(Spec::ZoneName),
            1 => (0usize..SYSTEM_ZONES.len()).prop_map(Spec::ColonZoneName),
            2 => (0usize..RULES.len()).prop_map(Spec::Rule),
            1 => (0usize..RULES.len()).prop_map(Spec::ColonRule),
            1 => Just(Spec::Empty),
            1 => (0usize..GARBAGE.len()).prop_map(Spec::Garbage),
            1 => Just(Spec::Unset),
        ];
        let conv = (0u8..8, any::<bool>(), prop::bool::weighted(0.3)).prop_map(|(probe, to_local, new_thread)| Op::Convert { probe, to_local, new_thread });
        let op = prop_oneof![
            3 => spec.prop_map(Op::SetTz),
            2 => (20u32..400).prop_map(Op::Wait),
            1 => (1080u32..1250).prop_map(Op::Wait),
            6 => conv,
        ];
        // scenario template: two sources of the same kind, a conversion in between, a long or short
        // wait, then conversions on both kinds of thread (the shape cache-key and window faults need)
        let same_kind = prop_oneof![
            3 => (0usize..N_CUSTOM, 1usize..N_CUSTOM, any::<bool>(), any::<bool>()).prop_map(|(a, d, c1, c2)| {
                let b = (a + d) % N_CUSTOM;
                (if c1 { Spec::ColonAbsPath(a) } else { Spec::AbsPath(a) }, if c2 { Spec::ColonAbsPath(b) } else { Spec::AbsPath(b) })
            }),
            1 => (0usize..SYSTEM_ZONES.len(), 1usize..SYSTEM_ZONES.len()).prop_map(|(a, d)| (Spec::ZoneName(a), Spec::ZoneName((a + d) % SYSTEM_ZONES.len()))),
            1 => (0usize..RULES.len(), 1usize..RULES.len()).prop_map(|(a, d)| (Spec::Rule(a), Spec::Rule((a + d) % RULES.len()))),
            1 => (0usize..N_CUSTOM).prop_map(|a| (Spec::Unset, Spec::AbsPath(a))),
            1 => (0usize..N_CUSTOM).prop_map(|a| (Spec::AbsPath(a), Spec::Unset)),
            1 => (0usize..N_CUSTOM, 0usize..GARBAGE.len()).prop_map(|(a, g)| (Spec::AbsPath(a), Spec::Garbage(g))),
            // the same text with and without the colon: different sources when the text is a rule
            1 => (0usize..RULES.len(), any::<bool>()).prop_map(|(a, first)| if first { (Spec::Rule(a), Spec::ColonRule(a)) } else { (Spec::ColonRule(a), Spec::Rule(a)) }),
            1 => (0usize..SYSTEM_ZONES.len(), any::<bool>()).prop_map(|(a, first)| if first { (Spec::ZoneName(a), Spec::ColonZoneName(a)) } else { (Spec::ColonZoneName(a), Spec::ZoneName(a)) }),
        ];
        let template = (same_kind, 0u8..8, any::<bool>(), prop_oneof![2 => 1080u32..1250, 1 => 50u32..600], 0u8..8, any::<bool>(), 0u8..8).prop_map(|((s1, s2), p1, d1, wait, p2, d2, p3)| {
            vec![
                Op::SetTz(s1),
                Op::Convert { probe: p1, to_local: d1, new_thread: false },
                Op::SetTz(s2),
                Op::Wait(wait),
                Op::Convert { probe: p2, to_local: d2, new_thread: false },
                Op::Convert { probe: p3, to_local: !d2, new_thread: false },
                Op::Convert { probe: p2, to_local: d2, new_thread: true },
            ]
        });
        // three-step history X -> Y -> X (or Z) with long waits: what a cache that remembers the wrong
        // source after a reload needs in order to show
        let any_spec = prop_oneof![
            3 => (0usize..N_CUSTOM).prop_map(Spec::AbsPath),
            1 => (0usize..N_CUSTOM).prop_map(Spec::ColonAbsPath),
            1 => (0usize..SYSTEM_ZONES.len()).prop_map(Spec::ZoneName),
            2 => (0usize..RULES.len()).prop_map(Spec::Rule),
            1 => Just(Spec::Unset),
            1 => Just(Spec::Empty),
            1 => (0usize..GARBAGE.len()).prop_map(Spec::Garbage),
        ];
        let template3 = (any_spec.clone(), any_spec.clone(), any_spec, prop::bool::weighted(0.65), 0u8..8, 0u8..8, any::<bool>(), prop_oneof![3 => 1080u32..1200, 1 => 100u32..700])
            .prop_map(|(x, y, z, back, p1, p2, dir, w2)| {
                let third = if back { x.clone() } else { z };
                vec![
                    Op::SetTz(x),
                    Op::Convert { probe: p1, to_local: dir, new_thread: false },
                    Op::SetTz(y),
                    Op::Wait(1100),
                    Op::Convert { probe: p2, to_local: !dir, new_thread: false },
                    Op::SetTz(third),
                    Op::Wait(w2),
                    Op::Convert { probe: p1, to_local: dir, new_thread: false },
                    Op::Convert { probe: p2, to_local: !dir, new_thread: false },
                ]
            });
        let env_spec_c = prop_oneof![
            3 => (0usize..N_CUSTOM).prop_map(Spec::AbsPath),
            1 => (0usize..SYSTEM_ZONES.len()).prop_map(Spec::ZoneName),
            1 => (0usize..RULES.len()).prop_map(Spec::Rule),
        ];
        // chain: after a change, conversions follow one another at short intervals until well past one
        // second - a reuse window that restarts with every use would never look at the environment again
        let chain = (env_spec_c.clone(), env_spec_c, 150u32..420, 0u8..8, any::<bool>()).prop_map(|(x, y, gap, p, dir)| {
            let mut v = vec![Op::SetTz(x), Op::Convert { probe: p, to_local: dir, new_thread: false }, Op::Wait(1100), Op::Convert { probe: p, to_local: dir, new_thread: false }, Op::SetTz(y)];
            let mut total = 0;
            while total < 1500 {
                v.push(Op::Wait(gap));
                total += gap;
                v.push(Op::Convert { probe: p, to_local: dir, new_thread: false });
            }
            v
        });
        // toggle: X -> (unset | empty | garbage) -> the very same X, long waits: a cache key that is not
        // updated when the source kind changes only shows when the same string returns
        let env_spec = prop_oneof![
            3 => (0usize..N_CUSTOM).prop_map(Spec::AbsPath),
            1 => (0usize..N_CUSTOM).prop_map(Spec::ColonAbsPath),
            1 => (0usize..SYSTEM_ZONES.len()).prop_map(Spec::ZoneName),
            2 => (0usize..RULES.len()).prop_map(Spec::Rule),
        ];
        let toggle = (env_spec.clone(), prop_oneof![3 => Just(Spec::Unset), 1 => Just(Spec::Empty), 1 => (0usize..GARBAGE.len()).prop_map(Spec::Garbage)], 0u8..8, 0u8..8, any::<bool>()).prop_map(|(x, mid, p1, p2, dir)| {
            vec![
                Op::SetTz(x.clone()),
                Op::Convert { probe: p1, to_local: dir, new_thread: false },
                Op::SetTz(mid),
                Op::Wait(1100),
                Op::Convert { probe: p2, to_local: !dir, new_thread: false },
                Op::SetTz(x),
                Op::Wait(1100),
                Op::Convert { probe: p1, to_local: dir, new_thread: false },
                Op::Convert { probe: p2, to_local: !dir, new_thread: false },
            ]
        });
        // a conversion *inside* the reuse window right after a change, then a long wait: a refresh
        // path that records the new source without loading its zone only shows in this shape
        let inside = (env_spec.clone(), env_spec, 0u8..8, 0u8..8, any::<bool>(), 0u32..300, any::<bool>()).prop_map(|(x, y, p1, p2, dir, pause, settle)| {
            let mut v = vec![Op::SetTz(x)];
            if settle { v.push(Op::Wait(1100)); }
            v.extend([
                Op::Convert { probe: p1, to_local: dir, new_thread: false },
                Op::SetTz(y),
                Op::Wait(pause),
                Op::Convert { probe: p2, to_local: !dir, new_thread: false },
                Op::Wait(1100),
                Op::Convert { probe: p1, to_local: dir, new_thread: false },
                Op::Convert { probe: p2, to_local: !dir, new_thread: false },
            ]);
            v
        });
        let free = proptest::collection::vec(op, 3..14);
        Some(
            prop_oneof![2 => free, 2 => template, 3 => template3, 2 => toggle, 2 => inside, 1 => chain]
                .prop_map(|mut ops| {
                    // at most three long waits per history; make sure it ends with conversions
                    let mut longs = 0;
                    for o in ops.iter_mut() {
                        if let Op::Wait(m) = o { if *m >= 1000 { longs += 1; if longs > 3 { *o = Op::Wait(100); } } }
                    }
                    ops.push(Op::Convert { probe: 1, to_local: true, new_thread: false });
                    ops.push(Op::Convert { probe: 2, to_local: false, new_thread: true });
                    ops
                })
                .boxed(),
        )
    }
    fn check(&self, ops: &Vec<Op>, obs: &mut Obs) -> Result<(), String> {
        ensure_files()?;
        let exe = std::env::current_exe().map_err(|e| format!("harness: {e}"))?;
        let json = serde_json::to_string(ops).map_err(|e| e.to_string())?;
        let out = std::process::Command::new(exe).arg("c18-child").arg(&json).env_remove("TZ").current_dir(decoy_dir()).output().map_err(|e| format!("harness: cannot spawn child: {e}"))?;
        if !out.status.success() {
            return Err(format!("child process failed: {:?} {}", out.status, String::from_utf8_lossy(&out.stderr)));
        }
        let observations: Vec<Observation> = String::from_utf8_lossy(&out.stdout).lines().filter_map(|l| serde_json::from_str(l).ok()).collect();
        // interpreter: timeline of (time the change completed, time it began, zone)
        let mut timeline: Vec<(u64, u64, Spec)> = vec![(0, 0, Spec::Unset)];
        let mut kinds_changed = false;
        let mut seen_fast = false;
        let mut seen_slow = false;
        for o in &observations {
            match &ops[o.op] {
                Op::SetTz(s) => {
                    let prev = &timeline.last().unwrap().2;
                    if std::mem::discriminant(prev) != std::mem::discriminant(s) { kinds_changed = true; }
                    timeline.push((o.t_after_ms, o.t_before_ms, s.clone()));
                }
                Op::Convert { probe, to_local, new_thread } => {
                    if let Some(m) = &o.panicked {
                        return Err(format!("conversion (op {}) panicked: {m}", o.op));
                    }
                    let current = timeline.last().unwrap();
                    // zones that may legitimately answer
                    let mut allowed: Vec<&Spec> = vec![&current.2];
                    if !*new_thread {
                        let window_start = o.t_before_ms.saturating_sub(1000 + 60);
                        for i in 0..timeline.len() - 1 {
                            // zone i was in force until timeline[i + 1] began to be set... be generous: until it completed
                            let until = timeline[i + 1].0;
                            if until >= window_start { allowed.push(&timeline[i].2); }
                        }
                    }
                    let since_change = o.t_before_ms.saturating_sub(current.0);
                    if timeline.len() > 1 {
                        if since_change >= 1060 { seen_slow = true; } else { seen_fast = true; }
                        obs.nt_if(*new_thread, "new_thread_after_change");
                    }
                    let mut sorted = o.offsets.clone();
                    let ok = allowed.iter().any(|s| {
                        let mut p = predict(&resolve(s), *probe, *to_local);
                        // earliest-first ordering is C05's concern; here only "one zone answers it all"
                        p.sort();
                        sorted.sort();
                        p == sorted
                    });
                    if !ok {
                        let exp: Vec<String> = allowed.iter().map(|s| format!("{s:?} -> {:?}", predict(&resolve(s), *probe, *to_local))).collect();
                        return Err(format!("op {} ({:?}) at {} ms, {} ms after the last TZ change: got offsets {:?}; zones that may answer: {}", o.op, ops[o.op], o.t_before_ms, since_change, o.offsets, exp.join("; ")));
                    }
                    obs.label(if allowed.len() > 1 { "inside_one_second_window" } else { "must_be_current" });
                }
                Op::Wait(_) => {}
            }
        }
        obs.nt_if(seen_fast && seen_slow, "both_sides_of_one_second");
        obs.nt_if(kinds_changed, "source_kind_change");
        let _ = cal::MIN_YEAR;
        ensure!(observations.iter().any(|o| matches!(ops[o.op], Op::Convert { .. })), "harness: no conversion observed");
        Ok(())
    }
}

pub fn subs() -> Vec<Box<dyn DynSub>> {
    vec![Box::new(History)]
}

pub fn run(ctx: &Ctx) {
    ctx.assume("in this sandbox /etc/localtime is Etc/UTC, so the 'system zone' and 'UTC' fallbacks coincide and cannot be told apart");
    ctx.assume("the wall clock is only a stimulus: inside the one-second window (plus 60 ms scheduling margin) every zone that was in force is accepted, so timing jitter cannot raise an alarm");
    if let Err(e) = ensure_files() {
        eprintln!("{e}");
    }
    // the zones must be pairwise distinguishable at the probes, or a wrong-zone answer could hide
    ctx.shrink_iters.store(12, std::sync::atomic::Ordering::Relaxed);
    ctx.run_prop(&History, ctx.n(96, 2000));
}
