//! C14 Field resolution never returns a value that contradicts a supplied field.
use crate::engine::{Ctx, DynSub, Obs, SubCheck};
use crate::gen;
use crate::guard::call;
use crate::props::c01::WD;
use crate::props::c07::T;
use crate::refmodel::cal;
use crate::{conv, ensure, ensure_eq};
use chrono::format::{ParseErrorKind, Parsed};
use chrono::{DateTime, FixedOffset, NaiveDate, NaiveDateTime, NaiveTime, Timelike, Utc};
use proptest::prelude::*;
use serde::{Deserialize, Serialize};

pub const NF: usize = 21;
/// index of each field in `Fields::f`
pub const YEAR: usize = 0;
pub const YDIV: usize = 1;
pub const YMOD: usize = 2;
pub const IYEAR: usize = 3;
pub const IDIV: usize = 4;
pub const IMOD: usize = 5;
pub const QUARTER: usize = 6;
pub const MONTH: usize = 7;
pub const WSUN: usize = 8;
pub const WMON: usize = 9;
pub const IWEEK: usize = 10;
pub const WDAY: usize = 11;
pub const ORD: usize = 12;
pub const DAY: usize = 13;
pub const AMPM: usize = 14;
pub const H12: usize = 15;
pub const MIN: usize = 16;
pub const SEC: usize = 17;
pub const NANO: usize = 18;
pub const TS: usize = 19;
pub const OFF: usize = 20;
pub const NAMES: [&str; NF] = ["year", "year_div_100", "year_mod_100", "isoyear", "isoyear_div_100", "isoyear_mod_100", "quarter", "month", "week_from_sun", "week_from_mon", "isoweek", "weekday", "ordinal", "day", "ampm", "hour12", "minute", "second", "nanosecond", "timestamp", "offset"];

#[derive(Clone, Copy, Debug, Default, Serialize, Deserialize, PartialEq)]
pub struct Fields {
    pub f: [Option<i64>; NF],
}

/// documented setter range
fn in_setter_range(i: usize, v: i64) -> bool {
    match i {
        YEAR | IYEAR | OFF => v >= i32::MIN as i64 && v <= i32::MAX as i64,
        YDIV | IDIV => (0..=i32::MAX as i64).contains(&v),
        YMOD | IMOD => (0..100).contains(&v),
        QUARTER => (1..=4).contains(&v),
        MONTH => (1..=12).contains(&v),
        WSUN | WMON => (0..=53).contains(&v),
        IWEEK => (1..=53).contains(&v),
        WDAY => (0..7).contains(&v),
        ORD => (1..=366).contains(&v),
        DAY => (1..=31).contains(&v),
        AMPM => (0..=1).contains(&v),
        H12 => (1..=12).contains(&v),
        MIN => (0..=59).contains(&v),
        SEC => (0..=60).contains(&v),
        NANO => (0..=999_999_999).contains(&v),
        _ => true, // timestamp: any i64
    }
}

fn set(p: &mut Parsed, i: usize, v: i64) -> chrono::ParseResult<()> {
    match i {
        YEAR => p.set_year(v), YDIV => p.set_year_div_100(v), YMOD => p.set_year_mod_100(v),
        IYEAR => p.set_isoyear(v), IDIV => p.set_isoyear_div_100(v), IMOD => p.set_isoyear_mod_100(v),
        QUARTER => p.set_quarter(v), MONTH => p.set_month(v), WSUN => p.set_week_from_sun(v), WMON => p.set_week_from_mon(v),
        IWEEK => p.set_isoweek(v), WDAY => p.set_weekday(WD[v as usize]), ORD => p.set_ordinal(v), DAY => p.set_day(v),
        AMPM => p.set_ampm(v == 1), H12 => p.set_hour12(v), MIN => p.set_minute(v), SEC => p.set_second(v), NANO => p.set_nanosecond(v),
        TS => p.set_timestamp(v), _ => p.set_offset(v),
    }
}

/// the 21 fields of a value (R-parsed). Century / two-digit fields only for non-negative years.
pub fn derive(day: i64, t: T, off: i32) -> Fields {
    let f = cal::fields(day);
    let mut o = [None; NF];
    o[YEAR] = Some(f.year);
    if f.year >= 0 { o[YDIV] = Some(f.year / 100); o[YMOD] = Some(f.year % 100); }
    o[IYEAR] = Some(f.iso_year);
    if f.iso_year >= 0 { o[IDIV] = Some(f.iso_year / 100); o[IMOD] = Some(f.iso_year % 100); }
    o[QUARTER] = Some(((f.month - 1) / 3 + 1) as i64);
    o[MONTH] = Some(f.month as i64);
    o[WSUN] = Some(cal::week_from(day, 6) as i64);
    o[WMON] = Some(cal::week_from(day, 0) as i64);
    o[IWEEK] = Some(f.iso_week as i64);
    o[WDAY] = Some(f.weekday as i64);
    o[ORD] = Some(f.ordinal as i64);
    o[DAY] = Some(f.day as i64);
    let h = t.secs / 3600;
    o[AMPM] = Some((h / 12) as i64);
    o[H12] = Some(if h % 12 == 0 { 12 } else { (h % 12) as i64 });
    o[MIN] = Some((t.secs / 60 % 60) as i64);
    o[SEC] = Some((t.secs % 60 + t.frac / 1_000_000_000) as i64);
    o[NANO] = Some((t.frac % 1_000_000_000) as i64);
    o[TS] = Some(day * 86_400 + t.secs as i64 - off as i64);
    o[OFF] = Some(off as i64);
    Fields { f: o }
}

#[derive(Clone, Debug, Serialize, Deserialize)]
pub struct RCase {
    /// the real value the fields were derived from (wall clock + offset)
    pub day: i64,
    pub t: T,
    pub off: i32,
    /// supplied fields (subset, possibly corrupted)
    pub fields: Fields,
    pub corrupted: bool,
}

fn kind(e: &chrono::ParseError) -> ParseErrorKind {
    e.kind()
}

/// is a year group resolvable to one year from the fields present? (None = group absent)
/// returns (present, determinate_for_value)
fn group(f: &Fields, y: usize, q: usize, r: usize, actual: i64) -> (bool, bool) {
    let (hy, hq, hr) = (f.f[y].is_some(), f.f[q].is_some(), f.f[r].is_some());
    if !hy && !hq && !hr { return (false, true); }
    let det = hy || (hq && hr) || (hr && !hq && (1970..=2069).contains(&actual));
    (true, det)
}
/// resolvable by presence alone (for corrupted sets): full year or two-digit year present
fn group_resolvable(f: &Fields, y: usize, q: usize, r: usize) -> (bool, bool) {
    let (hy, hq, hr) = (f.f[y].is_some(), f.f[q].is_some(), f.f[r].is_some());
    if !hy && !hq && !hr { return (false, true); }
    (true, hy || hr)
}
fn date_sufficient(f: &Fields, cal_year: bool, iso_year: bool) -> bool {
    let has = |i: usize| f.f[i].is_some();
    (cal_year && ((has(MONTH) && has(DAY)) || has(ORD) || (has(WSUN) && has(WDAY)) || (has(WMON) && has(WDAY)))) || (iso_year && has(IWEEK) && has(WDAY))
}
fn time_sufficient(f: &Fields) -> bool {
    let has = |i: usize| f.f[i].is_some();
    has(AMPM) && has(H12) && has(MIN) && (!has(NANO) || has(SEC))
}

/// soundness: the resolved date agrees with every supplied date field
fn date_agrees(f: &Fields, d: &NaiveDate) -> Result<(), String> {
    let z = conv::unix_day_of(*d);
    let m = cal::fields(z);
    let chk = |i: usize, actual: i64| -> Result<(), String> {
        match f.f[i] {
            Some(v) if v != actual => Err(format!("resolved {d:?} has {} = {actual} but the supplied field is {v}", NAMES[i])),
            _ => Ok(()),
        }
    };
    chk(YEAR, m.year)?;
    if m.year >= 0 { chk(YDIV, m.year / 100)?; chk(YMOD, m.year % 100)?; } else {
        // documented: setting the century or two-digit-year field implies that the year is not negative
        ensure!(f.f[YDIV].is_none() && f.f[YMOD].is_none(), "resolved {d:?} has a negative year although year_div_100 / year_mod_100 was supplied ({:?} / {:?}), which implies a non-negative year", f.f[YDIV], f.f[YMOD]);
    }
    chk(IYEAR, m.iso_year)?;
    if m.iso_year >= 0 { chk(IDIV, m.iso_year / 100)?; chk(IMOD, m.iso_year % 100)?; } else {
        ensure!(f.f[IDIV].is_none() && f.f[IMOD].is_none(), "resolved {d:?} has a negative ISO year although isoyear_div_100 / isoyear_mod_100 was supplied");
    }
    chk(QUARTER, ((m.month - 1) / 3 + 1) as i64)?;
    chk(MONTH, m.month as i64)?;
    chk(WSUN, cal::week_from(z, 6) as i64)?;
    chk(WMON, cal::week_from(z, 0) as i64)?;
    chk(IWEEK, m.iso_week as i64)?;
    chk(WDAY, m.weekday as i64)?;
    chk(ORD, m.ordinal as i64)?;
    chk(DAY, m.day as i64)?;
    Ok(())
}
fn time_agrees(f: &Fields, t: &NaiveTime) -> Result<(), String> {
    let chk = |i: usize, actual: i64| -> Result<(), String> {
        match f.f[i] {
            Some(v) if v != actual => Err(format!("resolved {t:?} has {} = {actual} but the supplied field is {v}", NAMES[i])),
            _ => Ok(()),
        }
    };
    let h = t.hour() as i64;
    chk(AMPM, h / 12)?;
    chk(H12, if h % 12 == 0 { 12 } else { h % 12 })?;
    chk(MIN, t.minute() as i64)?;
    chk(SEC, (t.second() + t.nanosecond() / 1_000_000_000) as i64)?;
    chk(NANO, (t.nanosecond() % 1_000_000_000) as i64)?;
    Ok(())
}
fn ts_agrees(f: &Fields, n: &NaiveDateTime, off: i64) -> Result<(), String> {
    if let Some(ts) = f.f[TS] {
        let local = conv::unix_day_of(n.date()) * 86_400 + n.num_seconds_from_midnight() as i64;
        let actual = local - off;
        let leap = n.nanosecond() >= 1_000_000_000;
        ensure!(ts == actual || (leap && ts == actual + 1), "resolved {n:?} (offset {off}) has timestamp {actual} but the supplied timestamp is {ts}");
    }
    Ok(())
}

pub struct Resolve;
impl SubCheck for Resolve {
    type Case = RCase;
    fn name(&self) -> &'static str {
        "resolve"
    }
    fn rule(&self) -> &'static str {
        "case = (real value, supplied field set = subset of its 21 derived fields, optionally with 1-3 fields corrupted); setters accept exactly the documented ranges; every Ok result of to_naive_date / to_naive_time / to_naive_datetime_with_offset / to_datetime / to_datetime_with_timezone agrees with every supplied field; uncorrupted determinate sufficient sets resolve to exactly the value, uncorrupted insufficient sets give NOT_ENOUGH, sufficient contradictory sets give IMPOSSIBLE or OUT_OF_RANGE; non-trivial = at least one redundant field beyond a sufficient combination, or any corrupted set"
    }
    fn strategy(&self) -> Option<BoxedStrategy<RCase>> {
        let edge = (any::<bool>(), 0u32..3, prop_oneof![3 => Just(0i32), 1 => gen::offset_secs()]).prop_map(|(hi, k, off)| {
            // the first / last seconds of the supported range
            if hi { (cal::max_day(), T { secs: 86_399 - k, frac: 0 }, off.min(0)) } else { (cal::min_day(), T { secs: k, frac: 0 }, off.max(0)) }
        });
        // leap second on the last second of a day, biased to year and month ends (the timestamp path
        // then has to step back across a day / month / year boundary)
        let leap_end = (prop_oneof![3 => (1i64..=9999).prop_map(|y| cal::days_from_civil(y, 12, 31)), 1 => (1900i64..2100, 1u32..=12).prop_map(|(y, m)| cal::days_from_civil(y, m, cal::days_in_month(y, m))), 1 => gen::day()], prop_oneof![1 => Just(0u32), 1 => 0u32..1_000_000_000], prop_oneof![2 => Just(0i32), 1 => gen::offset_secs()])
            .prop_map(|(day, n, off)| (day.clamp(cal::min_day() + 2, cal::max_day() - 2), T { secs: 86_399, frac: 1_000_000_000 + n }, off));
        // years -100k: the only negative years whose two-digit part is zero
        let neg_century = (1i64..2600, 1u32..=12, 1u32..=28, crate::props::c09::text_time(), gen::offset_secs()).prop_map(|(k, m, d, t, off)| (cal::days_from_civil(-100 * k, m, d), t, off));
        let val = prop_oneof![8 => (crate::props::c12::fmt_day(), crate::props::c09::text_time(), gen::offset_secs()), 1 => edge, 2 => leap_end, 1 => neg_century];
        let corrupt = proptest::collection::vec((0usize..NF, 0u8..7, any::<i64>()), 0..4);
        Some(
            (val, any::<u32>(), prop::bool::weighted(0.5), corrupt, 0u8..8)
                .prop_map(|((day, t, off), mask, do_corrupt, cs, style)| {
                    // (day, t) is the wall clock; the value exists iff wall - offset is representable
                    let off = if crate::props::c04::representable(crate::props::c04::shift(crate::refmodel::inst::Ndt { day, secs: t.secs, frac: t.frac }, -(off as i64))) { off } else { 0 };
                    let full = derive(day, t, off);
                    let mut f = full;
                    // subset styles: arbitrary mask, or a sufficient core plus extras
                    let mask = match style {
                        0 => mask,
                        1 => mask | (1 << YEAR) | (1 << MONTH) | (1 << DAY) | (1 << AMPM) | (1 << H12) | (1 << MIN),
                        2 => mask | (1 << IYEAR) | (1 << IWEEK) | (1 << WDAY) | (1 << AMPM) | (1 << H12) | (1 << MIN) | (1 << SEC),
                        3 => mask | (1 << TS),
                        4 => mask | (1 << YMOD) | (1 << ORD) | (1 << AMPM) | (1 << H12) | (1 << MIN) | (1 << OFF),
                        // timestamp + second (+ a few others): the reconstruction path
                        5 => (mask & mask.rotate_left(7) & mask.rotate_left(13)) | (1 << TS) | (1 << SEC),
                        // one resolution arm only, no redundant date fields
                        6 => (1 << IYEAR) | (1 << IWEEK) | (1 << WDAY) | (mask & ((1 << AMPM) | (1 << H12) | (1 << MIN) | (1 << SEC))),
                        _ => (1 << YEAR) | (1 << [ORD, WSUN, WMON][(mask % 3) as usize]) | (1 << WDAY) | (mask & ((1 << QUARTER) | (1 << TS) | (1 << OFF))),
                    };
                    for i in 0..NF {
                        if mask >> i & 1 == 0 { f.f[i] = None; }
                    }
                    // documented tolerance: for a leap second the timestamp may also be that of the next second
                    if t.leap() && day < cal::max_day() - 1 && f.f[TS].is_some() && f.f[SEC].is_some() && mask & (1 << 31) != 0 {
                        f.f[TS] = full.f[TS].map(|v| v + 1);
                    }
                    let mut corrupted = false;
                    if do_corrupt {
                        for (i, how, raw) in cs {
                            let base = full.f[i].unwrap_or(0);
                            let nv = match how {
                                0 => base + 1,
                                1 => base - 1,
                                2 => match i { MONTH => 12, DAY => 31, ORD => 366, IWEEK | WSUN | WMON => 53, SEC => 60, H12 => 12, QUARTER => 4, YMOD | IMOD => 99, _ => base + 100 },
                                3 => match i { MONTH | DAY | ORD | IWEEK | QUARTER | H12 => 1, _ => 0 },
                                // the true value plus a multiple of a power of two (what a narrowing comparison cannot see)
                                6 => base.wrapping_add(((raw % 3).abs() + 1) << [8u32, 16, 32, 32, 33][(raw.unsigned_abs() % 5) as usize]),
                                4 => match i { YEAR | IYEAR => raw % 300_000, YDIV | IDIV => (raw % 3000).abs(), TS => raw % 10_000_000_000_000, OFF => raw % 100_000, NANO => (raw % 1_000_000_000).abs(), _ => (raw % 70).abs() },
                                _ => match i { YEAR | IYEAR | OFF => if raw % 2 == 0 { i32::MAX as i64 + 1 } else { i32::MIN as i64 - 1 }, TS => if raw % 2 == 0 { i64::MAX } else { i64::MIN }, _ => if raw % 2 == 0 { -1 } else { raw } },
                            };
                            let nv = if i == WDAY { nv.rem_euclid(7) } else { nv };
                            if Some(nv) != f.f[i] { corrupted = true; }
                            f.f[i] = Some(nv);
                        }
                    }
                    if cal::civil_from_days(day).0 < 0 && style >= 5 && mask & (1 << 30) != 0 {
                        let y = cal::civil_from_days(day).0;
                        let i = [YMOD, YDIV, IMOD, IDIV][(mask >> 28 & 3) as usize];
                        f.f[i] = Some(if i == YMOD || i == IMOD { y.rem_euclid(100) } else { (-y) / 100 });
                        corrupted = true;
                    }
                    RCase { day, t, off, fields: f, corrupted }
                })
                .boxed(),
        )
    }
    fn check(&self, c: &RCase, obs: &mut Obs) -> Result<(), String> {
        let mut p = Parsed::new();
        let mut eff = Fields::default(); // fields that the documented ranges let in
        // the 24-hour setter is the third way of supplying the two hour fields
        {
            let x = (c.day + c.t.secs as i64).rem_euclid(40) - 8;
            let mut q = Parsed::new();
            match call("Parsed::set_hour", || q.set_hour(x))? {
                Ok(()) => {
                    ensure!((0..=23).contains(&x), "set_hour({x}) accepted a value outside 0..=23");
                    ensure_eq!((q.hour_div_12(), q.hour_mod_12()), (Some((x / 12) as u32), Some((x % 12) as u32)), "hour fields after set_hour({x})");
                }
                Err(e) => {
                    ensure!(!(0..=23).contains(&x), "set_hour({x}) refused a value inside 0..=23 ({e:?})");
                    ensure_eq!(kind(&e), ParseErrorKind::OutOfRange, "error kind of set_hour({x})");
                }
            }
            if let (Some(a), Some(h)) = (c.fields.f[AMPM], c.fields.f[H12]) {
                if in_setter_range(AMPM, a) && in_setter_range(H12, h) && (c.day ^ c.t.secs as i64) & 1 == 0 {
                    obs.label("hour_via_set_hour");
                    let h24 = a * 12 + h % 12;
                    ensure!(call("Parsed::set_hour", || p.set_hour(h24))?.is_ok(), "set_hour({h24}) refused on an empty Parsed");
                    // a conflicting set_hour (same or other half of the day) is refused and changes nothing
                    for other in [(h24 + 1) % 12 + a * 12, (h24 + 12) % 24, (h24 + 13) % 24] {
                        if other == h24 { continue; }
                        let mut q = p.clone();
                        ensure!(call("Parsed::set_hour", || q.set_hour(other))?.is_err(), "set_hour({other}) after set_hour({h24}) was accepted");
                        ensure!(q == p, "set_hour({other}) after set_hour({h24}) was refused but changed the fields: {q:?} vs {p:?}");
                    }
                }
            }
        }
        for i in 0..NF {
            if let Some(v) = c.fields.f[i] {
                let ok = in_setter_range(i, v);
                // weekday has no numeric setter: out-of-range values cannot be expressed
                if (i == WDAY || i == AMPM) && !ok { continue; }
                let r = call("Parsed::set_*", || set(&mut p, i, v))?;
                match r {
                    Ok(()) => {
                        ensure!(ok, "set_{}({v}) accepted a value outside the documented range", NAMES[i]);
                        eff.f[i] = Some(v);
                        // setting the same value again is accepted, a different one refused
                        ensure!(call("set twice", || set(&mut p, i, v))?.is_ok(), "set_{}({v}) twice with the same value was refused", NAMES[i]);
                        let other = if i == WDAY { (v + 1) % 7 } else if i == AMPM { 1 - v } else { let o = v.wrapping_add(1); if in_setter_range(i, o) && o > v { o } else { v.wrapping_sub(1) } };
                        // values that alias v after a narrowing conversion differ from v all the same
                        if i != WDAY && i != AMPM {
                            let k = [8u32, 16, 31, 32, 33][(v as u64 % 5) as usize];
                            for alias in [v.wrapping_add(1i64 << k), v.wrapping_sub(1i64 << k)] {
                                if alias == v { continue; }
                                let mut q = p.clone();
                                ensure!(call("set twice", || set(&mut q, i, alias))?.is_err(), "set_{}({alias}) after set_{}({v}) was accepted", NAMES[i], NAMES[i]);
                            }
                        }
                        if in_setter_range(i, other) && other != v {
                            let mut q = p.clone();
                            match call("set twice", || set(&mut q, i, other))? {
                                Err(e) => {
                                    ensure_eq!(kind(&e), ParseErrorKind::Impossible, "set_{}({other}) after {v}", NAMES[i]);
                                    // a refused setter leaves every field as it was
                                    ensure!(q == p, "set_{}({other}) was refused but changed the fields: {q:?} vs {p:?}", NAMES[i]);
                                }
                                Ok(()) => return Err(format!("set_{}({other}) after set_{}({v}) was accepted", NAMES[i], NAMES[i])),
                            }
                        }
                    }
                    Err(e) => {
                        ensure!(!ok, "set_{}({v}) refused a value inside the documented range ({e:?})", NAMES[i]);
                        ensure_eq!(kind(&e), ParseErrorKind::OutOfRange, "error kind of set_{}({v})", NAMES[i]);
                        obs.label("setter_out_of_range");
                    }
                }
            }
        }
        // the fields are public: a nanosecond value the setter refuses, written directly, is a non-existent
        // field value and no resolution may succeed with it
        if let Some(v) = c.fields.f[NANO] {
            if !in_setter_range(NANO, v) && (1_000_000_000..=u32::MAX as i64).contains(&v) && c.fields.f[SEC].is_some() {
                obs.label("nanosecond_written_directly");
                let mut q = p.clone();
                q.nanosecond = Some(v as u32);
                let rt = call("to_naive_time", || q.to_naive_time())?;
                ensure!(rt.is_err(), "to_naive_time succeeded ({:?}) with the nanosecond field holding {v}", rt.ok());
                let rd = call("to_naive_datetime_with_offset", || q.to_naive_datetime_with_offset(c.off))?;
                ensure!(rd.is_err(), "to_naive_datetime_with_offset succeeded ({:?}) with the nanosecond field holding {v}", rd.ok());
            }
        }
        let f = &eff;
        let fm = cal::fields(c.day);
        let (cal_present, cal_det) = group(f, YEAR, YDIV, YMOD, fm.year);
        let (iso_present, iso_det) = group(f, IYEAR, IDIV, IMOD, fm.iso_year);
        let (cal_p2, cal_res) = group_resolvable(f, YEAR, YDIV, YMOD);
        let (iso_p2, iso_res) = group_resolvable(f, IYEAR, IDIV, IMOD);
        let groups_ok = if c.corrupted { cal_res && iso_res } else { cal_det && iso_det };
        let d_suff = if c.corrupted { date_sufficient(f, cal_p2 && cal_res, iso_p2 && iso_res) } else { date_sufficient(f, cal_present && cal_det, iso_present && iso_det) };
        let t_suff = time_sufficient(f);
        let n_date = (0..=DAY).filter(|&i| f.f[i].is_some()).count();
        obs.nt_if(c.corrupted, "corrupted");
        obs.nt_if(d_suff && n_date > 3, "redundant_date_fields");
        obs.label_if(!groups_ok, "indeterminate_year_group");
        obs.label_if(d_suff, "date_sufficient");
        obs.label_if(t_suff, "time_sufficient");
        obs.label_if(f.f[TS].is_some(), "timestamp");

        let judge = |what: &str, ok_exact: Option<String>, got: Result<String, ParseErrorKind>, sufficient: bool| -> Result<(), String> {
            // value agreement (soundness) is checked by the caller; this judges completeness and error class
            if !groups_ok { return Ok(()); }
            match (&got, c.corrupted, sufficient) {
                (Ok(g), false, true) => { if let Some(e) = ok_exact { ensure!(*g == e, "{what}: resolved {g} from an uncorrupted determinate set, expected exactly {e}"); } Ok(()) }
                (Ok(g), false, false) => Err(format!("{what}: resolved {g} from an insufficient field set")),
                (Err(k), false, true) => Err(format!("{what}: failed with {k:?} although the fields are all derived from one value, determinate and sufficient")),
                (Err(k), false, false) => { ensure!(*k == ParseErrorKind::NotEnough, "{what}: insufficient uncorrupted set reported as {k:?}, expected NotEnough"); Ok(()) }
                (Err(k), true, true) => { ensure!(matches!(k, ParseErrorKind::Impossible | ParseErrorKind::OutOfRange), "{what}: sufficient but contradictory set reported as {k:?}"); Ok(()) }
                _ => Ok(()),
            }
        };

        // ---- date
        let rd = call("to_naive_date", || p.to_naive_date())?;
        if let Ok(d) = &rd { date_agrees(f, d)?; }
        judge("to_naive_date", Some(format!("{:?}", conv::date(c.day))), rd.as_ref().map(|d| format!("{d:?}")).map_err(kind), d_suff)?;
        // ---- time
        let rt = call("to_naive_time", || p.to_naive_time())?;
        if let Ok(t) = &rt { time_agrees(f, t)?; }
        let exp_t = {
            let sec = f.f[SEC].unwrap_or(0);
            let (s59, leap) = if sec == 60 { (59, 1_000_000_000u32) } else { (sec as u32, 0) };
            T { secs: c.t.secs - c.t.secs % 60 + s59, frac: leap + f.f[NANO].unwrap_or(0) as u32 }
        };
        if !c.corrupted {
            judge("to_naive_time", Some(format!("{:?}", exp_t.build()?)), rt.as_ref().map(|t| format!("{t:?}")).map_err(kind), t_suff)?;
        } else if t_suff {
            ensure!(rt.is_ok(), "to_naive_time failed ({:?}) although hour, minute (and second when a fraction is given) are supplied and in range", rt);
        }
        // ---- naive date-time with the value's offset
        let rn = call("to_naive_datetime_with_offset", || p.to_naive_datetime_with_offset(c.off))?;
        if let Ok(n) = &rn {
            date_agrees(f, &n.date())?;
            time_agrees(f, &n.time())?;
            ts_agrees(f, n, c.off as i64)?;
        }
        let has_ts = f.f[TS].is_some();
        // expected exact value: supplied second (or the timestamp's second) and fraction, else zero
        let exp_n = |with_ts: bool| -> Result<NaiveDateTime, String> {
            let t = if with_ts && f.f[SEC].is_none() { T { secs: c.t.secs, frac: f.f[NANO].unwrap_or(0) as u32 } } else { exp_t };
            Ok(conv::date(c.day).and_time(t.build()?))
        };
        // a leap-second value whose `second` field is not supplied cannot be reconstructed from the
        // timestamp alone (the timestamp does not carry it): completeness is not judged there
        let leap_lost = (c.t.leap() && has_ts && f.f[SEC].is_none())
            // documented rule "a missing second is read as zero" collides with a supplied timestamp
            // that encodes a non-zero second: the statement is silent on which wins (observed:
            // IMPOSSIBLE); soundness only
            || (has_ts && d_suff && t_suff && f.f[SEC].is_none() && c.t.secs % 60 != 0);
        let dt_suff = (d_suff && t_suff) || has_ts;
        if !leap_lost {
            let use_ts = has_ts && !(d_suff && t_suff);
            judge("to_naive_datetime_with_offset", Some(format!("{:?}", exp_n(use_ts)?)), rn.as_ref().map(|n| format!("{n:?}")).map_err(kind), dt_suff)?;
        }
        // ---- zone-aware
        let rz = call("to_datetime", || p.to_datetime())?;
        if let Ok(z) = &rz {
            // (whole seconds: a leap-second reading on the last second of the range is a valid value)
            ensure!(z.timestamp() >= DateTime::<Utc>::MIN_UTC.timestamp() && z.timestamp() <= DateTime::<Utc>::MAX_UTC.timestamp(), "to_datetime built a value outside [MIN_UTC, MAX_UTC]");
            let o = z.offset().local_minus_utc() as i64;
            if let Some(fo) = f.f[OFF] { ensure_eq!(o, fo, "to_datetime offset vs supplied offset field"); }
            let n = z.naive_local();
            date_agrees(f, &n.date())?;
            time_agrees(f, &n.time())?;
            ts_agrees(f, &n, o)?;
        }
        let exp_repr0 = exp_n(has_ts && !(d_suff && t_suff)).map(|e| crate::props::c04::representable(crate::props::c04::shift(conv::model_of(&e), -(c.off as i64)))).unwrap_or(false);
        if !leap_lost && (c.corrupted || exp_repr0) && (f.f[OFF].is_some() || (has_ts && c.off == 0)) && (!c.corrupted || f.f[OFF].map(|o| o.abs() < 86_400).unwrap_or(true)) {
            let use_ts = has_ts && !(d_suff && t_suff);
            let e = exp_n(use_ts)?;
            judge("to_datetime", Some(format!("{:?}{}", e, crate::refmodel::fmt::offset(c.off))), rz.as_ref().map(|z| format!("{:?}{}", z.naive_local(), crate::refmodel::fmt::offset(z.offset().local_minus_utc()))).map_err(kind), dt_suff)?;
        } else if !c.corrupted && f.f[OFF].is_none() && !has_ts {
            ensure_eq!(rz.as_ref().map(|_| ()).map_err(kind), Err(ParseErrorKind::NotEnough), "to_datetime without offset and timestamp");
        }
        // ---- with an explicit zone
        let fo = FixedOffset::east_opt(c.off).ok_or("harness: offset")?;
        let rw = call("to_datetime_with_timezone", || p.to_datetime_with_timezone(&fo))?;
        if let Ok(z) = &rw {
            // (whole seconds: a leap-second reading on the last second of the range is a valid value)
            ensure!(z.timestamp() >= DateTime::<Utc>::MIN_UTC.timestamp() && z.timestamp() <= DateTime::<Utc>::MAX_UTC.timestamp(), "to_datetime_with_timezone built a value outside [MIN_UTC, MAX_UTC]");
            if let Some(o) = f.f[OFF] { ensure_eq!(z.offset().local_minus_utc() as i64, o, "to_datetime_with_timezone offset vs supplied offset field"); }
            let n = z.naive_local();
            date_agrees(f, &n.date())?;
            time_agrees(f, &n.time())?;
            ts_agrees(f, &n, c.off as i64)?;
        }
        // the expected (possibly truncated) wall clock must itself denote a representable instant
        let exp_repr = |with_ts: bool| -> bool {
            exp_n(with_ts).map(|e| crate::props::c04::representable(crate::props::c04::shift(conv::model_of(&e), -(c.off as i64)))).unwrap_or(false)
        };
        if !leap_lost && !c.corrupted && exp_repr(has_ts && !(d_suff && t_suff)) {
            let use_ts = has_ts && !(d_suff && t_suff);
            judge("to_datetime_with_timezone", Some(format!("{:?}", exp_n(use_ts)?)), rw.as_ref().map(|z| format!("{:?}", z.naive_local())).map_err(kind), dt_suff)?;
        }
        let ru = call("to_datetime_with_timezone(Utc)", || p.to_datetime_with_timezone(&Utc))?;
        if let Ok(z) = &ru {
            let n = z.naive_utc();
            date_agrees(f, &n.date())?;
            time_agrees(f, &n.time())?;
            ts_agrees(f, &n, 0)?;
            if let Some(o) = f.f[OFF] { ensure_eq!(o, 0, "to_datetime_with_timezone(Utc) accepted a non-zero offset field"); }
        }
        let _ = p.to_fixed_offset();
        Ok(())
    }
}

// ---------------------------------------------------------------------------------------------
/// a zone with one offset change, so that local times can be skipped or repeated
#[derive(Clone, Copy, Debug, PartialEq, Eq)]
pub struct OneStep {
    pub t: i64,
    pub a: i32,
    pub b: i32,
}
/// the offset in force at one instant of a `OneStep` zone; it remembers its zone, as the offsets of
/// real variable zones do, so that arithmetic on a `DateTime<OneStep>` stays in the zone
#[derive(Clone, Copy, Debug, PartialEq, Eq)]
pub struct StepOffset {
    pub zone: OneStep,
    pub secs: i32,
}
impl StepOffset {
    pub fn local_minus_utc(&self) -> i32 {
        self.secs
    }
}
impl chrono::Offset for StepOffset {
    fn fix(&self) -> FixedOffset {
        FixedOffset::east_opt(self.secs).unwrap()
    }
}
impl std::fmt::Display for StepOffset {
    fn fmt(&self, f: &mut std::fmt::Formatter) -> std::fmt::Result {
        write!(f, "{}", chrono::Offset::fix(self))
    }
}
impl OneStep {
    fn off(self, o: i32) -> StepOffset {
        StepOffset { zone: self, secs: o }
    }
    /// (instant, offset) of every occurrence of the wall-clock second `w`, earliest first
    pub fn preimage(self, w: i64) -> Vec<(i64, i32)> {
        let mut v = vec![];
        if w - (self.a as i64) < self.t { v.push((w - self.a as i64, self.a)); }
        if w - self.b as i64 >= self.t { v.push((w - self.b as i64, self.b)); }
        v.sort();
        v
    }
}
impl chrono::TimeZone for OneStep {
    type Offset = StepOffset;
    fn from_offset(o: &StepOffset) -> Self {
        o.zone
    }
    fn offset_from_local_date(&self, local: &NaiveDate) -> chrono::MappedLocalTime<StepOffset> {
        self.offset_from_local_datetime(&local.and_time(NaiveTime::MIN))
    }
    fn offset_from_local_datetime(&self, local: &NaiveDateTime) -> chrono::MappedLocalTime<StepOffset> {
        let w = local.and_utc().timestamp();
        let c = self.preimage(w);
        match c.len() {
            0 => chrono::MappedLocalTime::None,
            1 => chrono::MappedLocalTime::Single(self.off(c[0].1)),
            _ => chrono::MappedLocalTime::Ambiguous(self.off(c[0].1), self.off(c[1].1)),
        }
    }
    fn offset_from_utc_date(&self, utc: &NaiveDate) -> StepOffset {
        self.offset_from_utc_datetime(&utc.and_time(NaiveTime::MIN))
    }
    fn offset_from_utc_datetime(&self, utc: &NaiveDateTime) -> StepOffset {
        self.off(if utc.and_utc().timestamp() >= self.t { self.b } else { self.a })
    }
}

#[derive(Clone, Debug, Serialize, Deserialize)]
pub struct VCase {
    pub t: i64,
    pub a: i32,
    pub b: i32,
    /// wall-clock second (as a Unix-style count) and fraction to resolve
    pub w: i64,
    pub nano: Option<u32>,
    /// 0 none, 1 offset before the change, 2 offset after, 3 another offset
    pub off_choice: u8,
    /// 0 none, 1 first occurrence, 2 second occurrence (or the first when there is one), 3 off by one
    pub ts_choice: u8,
    /// supply the calendar date and clock fields (else only timestamp [+ offset])
    pub civil: bool,
}
pub struct VarZone;
impl SubCheck for VarZone {
    type Case = VCase;
    fn name(&self) -> &'static str {
        "resolve_in_variable_zone"
    }
    fn rule(&self) -> &'static str {
        "case = (zone with one offset change, wall-clock time near / inside the skipped or repeated interval or far away, which of date+clock fields, offset field (before / after / other) and timestamp field (first / second occurrence / off by one) are supplied); to_datetime_with_timezone: every Ok result shows the supplied wall clock, carries the supplied offset, has the supplied timestamp and is one of the zone's occurrences of that wall clock; when the fields come from one actual occurrence and include its offset (or the wall clock occurs once) the result is exactly that occurrence; a skipped wall clock or a contradicting offset is an error; non-trivial = wall clock inside a repeated or skipped interval"
    }
    fn strategy(&self) -> Option<BoxedStrategy<VCase>> {
        let t = prop_oneof![3 => -2_000_000_000i64..4_000_000_000, 1 => -60_000_000_000i64..250_000_000_000];
        let offs = prop_oneof![
            3 => (-50i32..=56, -8i32..=8).prop_filter_map("no change", |(q, d)| if d != 0 { Some((q * 900, q * 900 + d * 900)) } else { None }),
            1 => (gen::offset_secs(), gen::offset_secs()).prop_filter("no change", |(a, b)| a != b),
        ];
        Some(
            (t, offs, prop_oneof![5 => 0u8..=1, 1 => Just(2u8)], -4i64..=4, any::<u16>(), proptest::option::of(0u32..1_000_000_000), 0u8..5, 0u8..4, prop::bool::weighted(0.8))
                .prop_map(|(t, (a, b), place, d, r, nano, off_choice, ts_choice, civil)| {
                    let (lo, hi) = (a.min(b) as i64, a.max(b) as i64);
                    // place 0: at the ends of the interval [t + lo, t + hi); 1: inside it; 2: far away
                    let w = match place {
                        0 => if r % 2 == 0 { t + lo + d } else { t + hi + d },
                        1 => t + lo + (r as i64 * (hi - lo).max(1)) / 65_536,
                        _ => t + (r as i64 - 32_768) * 40_000,
                    };
                    VCase { t, a, b, w, nano, off_choice, ts_choice, civil: civil || ts_choice == 0 }
                })
                .boxed(),
        )
    }
    fn check(&self, c: &VCase, obs: &mut Obs) -> Result<(), String> {
        let tz = OneStep { t: c.t, a: c.a, b: c.b };
        let occ = tz.preimage(c.w);
        obs.nt_if(occ.len() == 2, "repeated_wall_clock");
        obs.nt_if(occ.is_empty(), "skipped_wall_clock");
        obs.label_if(occ.len() == 1, "wall_clock_once");
        let day = c.w.div_euclid(86_400);
        let secs = c.w.rem_euclid(86_400) as u32;
        let (y, mo, da) = cal::civil_from_days(day);
        let mut p = Parsed::new();
        let set = |r: chrono::ParseResult<()>| r.map_err(|e| format!("harness: setter refused: {e:?}"));
        if c.civil {
            set(p.set_year(y))?;
            set(p.set_month(mo as i64))?;
            set(p.set_day(da as i64))?;
            set(p.set_hour((secs / 3600) as i64))?;
            set(p.set_minute((secs / 60 % 60) as i64))?;
            set(p.set_second((secs % 60) as i64))?;
        }
        if let Some(n) = c.nano { set(p.set_nanosecond(n as i64))?; }
        // the actual occurrence the fields are derived from, if any
        let pick = match c.ts_choice { 2 => occ.last(), _ => occ.first() }.copied();
        let off_field: Option<i32> = match c.off_choice {
            0 => None,
            1 => Some(c.a),
            2 => Some(c.b),
            3 => Some(c.a.max(c.b) + 900),
            // the zone's offset cut to whole minutes (another offset unless it has no seconds)
            _ => { let o = occ.first().map(|x| x.1).unwrap_or(c.a); Some(o / 60 * 60) }
        };
        if let Some(o) = off_field { set(p.set_offset(o as i64))?; }
        let ts_field: Option<i64> = match (c.ts_choice, pick) {
            (0, _) => None,
            (3, Some((u, _))) => Some(u + 1),
            (_, Some((u, _))) => Some(u),
            // skipped wall clock: the instant the wall clock would have with the offset before the change
            (_, None) => Some(c.w - c.a as i64),
        };
        if let Some(ts) = ts_field { set(p.set_timestamp(ts))?; }
        obs.label_if(off_field.is_some(), "offset_field");
        obs.label_if(ts_field.is_some(), "timestamp_field");
        let r = call("to_datetime_with_timezone", || p.to_datetime_with_timezone(&tz))?;
        let what = format!("zone {}|{}->{} wall {} fields civil={} off={:?} ts={:?}", c.t, c.a, c.b, c.w, c.civil, off_field, ts_field);
        if let Ok(z) = &r {
            // soundness
            let got = (z.timestamp(), z.offset().local_minus_utc());
            if c.civil {
                ensure_eq!(z.naive_local().and_utc().timestamp(), c.w, "{what}: wall clock of the result");
                ensure!(occ.contains(&got), "{what}: result {got:?} is not an occurrence of the wall clock in the zone ({occ:?})");
            }
            if let Some(o) = off_field { ensure_eq!(got.1, o, "{what}: offset of the result vs supplied offset"); }
            if let Some(ts) = ts_field { ensure_eq!(got.0, ts, "{what}: timestamp of the result vs supplied timestamp"); }
            if let Some(n) = c.nano { ensure_eq!(z.timestamp_subsec_nanos(), n, "{what}: nanosecond"); }
            ensure_eq!(tz.preimage(z.naive_local().and_utc().timestamp()).contains(&got), true, "{what}: result {got:?} is not consistent with the zone");
        }
        // completeness / error class, for field sets derived from one actual occurrence
        let consistent_ts = match (ts_field, pick) { (None, _) => true, (Some(ts), Some((u, _))) => ts == u, _ => false };
        if c.civil && consistent_ts {
            match pick {
                None => ensure!(r.is_err(), "{what}: a skipped wall clock was resolved"),
                Some((u, o)) => {
                    let derived_off = off_field.map(|f| f == o);
                    match derived_off {
                        Some(true) => {
                            // the offset names this occurrence (when both occurrences are asked for, ts picks)
                            let z = r.as_ref().map_err(|e| format!("{what}: failed with {:?} although every field comes from the occurrence ({u}, {o})", kind(e)))?;
                            ensure_eq!((z.timestamp(), z.offset().local_minus_utc()), (u, o), "{what}: resolved occurrence");
                        }
                        Some(false) => {
                            // the offset belongs to the other occurrence (then the timestamp, if any, contradicts) or to none
                            let other = occ.iter().find(|x| Some(x.1) == off_field && x.0 != u);
                            match other {
                                Some(x) if ts_field.is_none() => {
                                    let z = r.as_ref().map_err(|e| format!("{what}: failed with {:?} although the offset names the occurrence {x:?}", kind(e)))?;
                                    ensure_eq!((z.timestamp(), z.offset().local_minus_utc()), *x, "{what}: resolved occurrence");
                                }
                                _ => ensure!(r.is_err(), "{what}: contradicting offset / timestamp accepted: {:?}", r.as_ref().ok().map(|z| (z.timestamp(), z.offset().local_minus_utc()))),
                            }
                        }
                        None => {
                            if occ.len() == 1 {
                                let z = r.as_ref().map_err(|e| format!("{what}: failed with {:?} although the wall clock occurs exactly once", kind(e)))?;
                                ensure_eq!((z.timestamp(), z.offset().local_minus_utc()), (u, o), "{what}: resolved occurrence");
                            }
                            // repeated wall clock without an offset: which occurrence (or 'not enough') is not stated
                        }
                    }
                }
            }
        }
        Ok(())
    }
}

pub fn subs() -> Vec<Box<dyn DynSub>> {
    vec![Box::new(Resolve), Box::new(VarZone)]
}

pub fn run(ctx: &Ctx) {
    ctx.assume("Century / two-digit-year fields are derived only for non-negative years; on negative years they are not judged (the documentation only says they imply a non-negative year)");
    ctx.assume("Completeness is judged only when each year group is determinate (full year, or century + two-digit year, or the two-digit year alone inside 1970..=2069); a leap-second value whose second field is missing cannot be recovered from a timestamp and is judged for soundness only");
    // (i) all 16,384 subsets of the 14 date fields for a list of dates (range ends, year-type corners, negative years)
    let mut days: Vec<i64> = vec![cal::min_day() + 2, cal::max_day() - 2];
    for y in [1970, 1999, 2000, 2004, 2015, 2020, 2021, 2024, 2069, 2070, 1969, -1, 0, 1, -400, 9999, 10_000, 123_456, -123_456] {
        days.extend([cal::days_from_civil(y, 1, 1), cal::days_from_civil(y, 1, 3), cal::days_from_civil(y, 12, 31), cal::days_from_civil(y, 2, 28), cal::days_from_civil(y, 7, 4)]);
    }
    let n_days = ctx.n(24, days.len() as u64) as usize;
    let offset = (ctx.seed as usize * 7) % days.len();
    let days: Vec<i64> = (0..n_days).map(|i| days[(offset + i * 5) % days.len()]).collect();
    let days = &days;
    let t0 = T { secs: 45_296, frac: 0 };
    ctx.run_enum_opt(&Resolve, days.len() * 16, |k| {
        let day = days[k / 16];
        let hi = (k % 16) as u32;
        (0u32..1024).map(move |lo| {
            let mask = hi << 10 | lo;
            let mut f = derive(day, t0, 0);
            for i in 0..NF {
                if i > DAY || mask >> i & 1 == 0 { f.f[i] = None; }
            }
            RCase { day, t: t0, off: 0, fields: f, corrupted: false }
        })
    }, false, true);
    // (ii)+(iii) random subsets incl. time/timestamp/offset, corrupted and independent values
    ctx.run_prop(&Resolve, ctx.n(5_000_000, 300_000_000));
    ctx.run_prop(&VarZone, ctx.n(1_000_000, 50_000_000));
}
