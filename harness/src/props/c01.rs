//! C01 Calendar, ordinal, ISO-week and day-count forms of a date agree.
use crate::engine::{Ctx, DynSub, Obs, SubCheck, Tier};
use crate::gen;
use crate::guard::call;
use crate::refmodel::cal;
use crate::{ensure, ensure_eq};
use chrono::{Datelike, NaiveDate, Weekday};
use proptest::prelude::*;
use std::cmp::Ordering;
use std::collections::hash_map::DefaultHasher;
use std::hash::{Hash, Hasher};

pub const WD: [Weekday; 7] = [Weekday::Mon, Weekday::Tue, Weekday::Wed, Weekday::Thu, Weekday::Fri, Weekday::Sat, Weekday::Sun];

fn h<T: Hash>(t: &T) -> u64 {
    let mut s = DefaultHasher::new();
    t.hash(&mut s);
    s.finish()
}

fn ce_i32(z: i64) -> Option<i32> {
    i32::try_from(z + cal::CE_SHIFT).ok()
}

/// check every accessor of `d` against the reference fields of unix day `z`
pub fn check_fields(d: &NaiveDate, z: i64) -> Result<(), String> {
    let f = cal::fields(z);
    ensure_eq!(d.year() as i64, f.year, "year of day {z}");
    ensure_eq!(d.month(), f.month, "month of day {z}");
    ensure_eq!(d.month0(), f.month - 1, "month0 of day {z}");
    ensure_eq!(d.day(), f.day, "day of day {z}");
    ensure_eq!(d.day0(), f.day - 1, "day0 of day {z}");
    ensure_eq!(d.ordinal(), f.ordinal, "ordinal of day {z}");
    ensure_eq!(d.ordinal0(), f.ordinal - 1, "ordinal0 of day {z}");
    ensure_eq!(d.weekday().num_days_from_monday(), f.weekday, "weekday of day {z}");
    let w = d.iso_week();
    ensure_eq!(w.year() as i64, f.iso_year, "iso year of day {z}");
    ensure_eq!(w.week(), f.iso_week, "iso week of day {z}");
    ensure_eq!(w.week0(), f.iso_week - 1, "iso week0 of day {z}");
    ensure_eq!(d.num_days_from_ce() as i64, f.ce, "num_days_from_ce of day {z}");
    // the provided trait method, as the date-time wrapper inherits it
    ensure_eq!(d.and_time(chrono::NaiveTime::MIN).num_days_from_ce() as i64, f.ce, "NaiveDateTime::num_days_from_ce of day {z}");
    ensure_eq!(d.leap_year(), f.leap, "leap_year of day {z}");
    // year 0 = 1 BCE: the era form of the year (a provided trait method)
    ensure_eq!(d.year_ce(), (f.year >= 1, if f.year >= 1 { f.year as u32 } else { (1 - f.year) as u32 }), "year_ce of day {z}");
    Ok(())
}

/// E1: one representable date, all forms, and its relation to the previous day.
pub struct Dates;
impl SubCheck for Dates {
    type Case = i64;
    fn name(&self) -> &'static str {
        "dates"
    }
    fn rule(&self) -> &'static str {
        "case = unix day number of a representable date (all 191,491,529 enumerated in chronological order); every date is distinct and non-trivial (all forms + four constructors + successor relation checked against R-cal)"
    }
    fn strategy(&self) -> Option<BoxedStrategy<i64>> {
        Some(gen::day())
    }
    fn check(&self, &z: &i64, obs: &mut Obs) -> Result<(), String> {
        ensure!(cal::in_range_day(z), "harness: day {z} out of range");
        let f = cal::fields(z);
        obs.nt("date");
        obs.label_if(f.leap, "leap_year");
        obs.label_if(f.iso_year != f.year, "iso_year_differs");
        obs.label_if(f.iso_week == 53, "week53");
        obs.label_if(f.year < 0, "negative_year");
        let ce = ce_i32(z).ok_or("harness: ce")?;
        let d = call("from_num_days_from_ce_opt", || NaiveDate::from_num_days_from_ce_opt(ce))?
            .ok_or_else(|| format!("from_num_days_from_ce_opt({ce}) = None for in-range day {z}"))?;
        check_fields(&d, z)?;
        // the four constructors on the reference tuple
        let a = call("from_ymd_opt", || NaiveDate::from_ymd_opt(f.year as i32, f.month, f.day))?;
        ensure_eq!(a, Some(d), "from_ymd_opt({},{},{})", f.year, f.month, f.day);
        let b = call("from_yo_opt", || NaiveDate::from_yo_opt(f.year as i32, f.ordinal))?;
        ensure_eq!(b, Some(d), "from_yo_opt({},{})", f.year, f.ordinal);
        let c = call("from_isoywd_opt", || NaiveDate::from_isoywd_opt(f.iso_year as i32, f.iso_week, WD[f.weekday as usize]))?;
        ensure_eq!(c, Some(d), "from_isoywd_opt({},{},{})", f.iso_year, f.iso_week, f.weekday);
        let a = a.unwrap();
        ensure!(a.cmp(&d) == Ordering::Equal && h(&a) == h(&d), "equal dates compare/hash differently at day {z}");
        // successor relation
        if z > cal::min_day() {
            let pce = ce - 1;
            let p = call("from_num_days_from_ce_opt", || NaiveDate::from_num_days_from_ce_opt(pce))?
                .ok_or_else(|| format!("from_num_days_from_ce_opt({pce}) = None"))?;
            ensure!(p < d && d > p && p != d && p.cmp(&d) == Ordering::Less, "order of consecutive days at {z}");
            ensure_eq!(call("succ_opt", || p.succ_opt())?, Some(d), "succ_opt of day {}", z - 1);
            ensure_eq!(call("pred_opt", || d.pred_opt())?, Some(p), "pred_opt of day {z}");
            ensure_eq!(d.weekday(), p.weekday().succ(), "weekday succession at day {z}");
            let (pw, dw) = (p.iso_week(), d.iso_week());
            let same = cal::iso_week(z - 1) == cal::iso_week(z);
            if same {
                ensure!(pw == dw && pw.cmp(&dw) == Ordering::Equal, "iso weeks of days {} and {z} should be equal", z - 1);
            } else {
                ensure!(pw < dw && pw != dw, "iso weeks of days {} and {z} should be strictly increasing", z - 1);
            }
        } else {
            obs.label("range_min");
            ensure_eq!(call("pred_opt", || d.pred_opt())?, None, "MIN.pred_opt()");
            ensure_eq!(d, NaiveDate::MIN, "NaiveDate::MIN");
            ensure_eq!(call("from_num_days_from_ce_opt", || NaiveDate::from_num_days_from_ce_opt(ce - 1))?, None, "day before MIN");
        }
        if z == cal::max_day() {
            obs.label("range_max");
            ensure_eq!(call("succ_opt", || d.succ_opt())?, None, "MAX.succ_opt()");
            ensure_eq!(d, NaiveDate::MAX, "NaiveDate::MAX");
            ensure_eq!(call("from_num_days_from_ce_opt", || NaiveDate::from_num_days_from_ce_opt(ce + 1))?, None, "day after MAX");
        }
        Ok(())
    }
}

/// random date pairs: order equals day-number order, equality/hash, iso week order
pub struct Pairs;
impl SubCheck for Pairs {
    type Case = (i64, i64);
    fn name(&self) -> &'static str {
        "pairs"
    }
    fn rule(&self) -> &'static str {
        "case = two unix days; non-trivial when the dates differ (order must equal day-number order, ISO weeks chronological)"
    }
    fn strategy(&self) -> Option<BoxedStrategy<(i64, i64)>> {
        Some(
            prop_oneof![
                3 => (gen::day(), gen::day()),
                2 => (gen::day(), -400i64..400).prop_map(|(a, d)| (a, (a + d).clamp(cal::min_day(), cal::max_day()))),
            ]
            .boxed(),
        )
    }
    fn check(&self, &(a, b): &(i64, i64), obs: &mut Obs) -> Result<(), String> {
        obs.nt_if(a != b, "distinct_pair");
        obs.label_if((a < 0) != (b < 0), "across_epoch");
        let da = crate::conv::date(a);
        let db = crate::conv::date(b);
        ensure_eq!(da.cmp(&db), a.cmp(&b), "cmp of days {a},{b}");
        ensure_eq!(da.partial_cmp(&db), Some(a.cmp(&b)), "partial_cmp of days {a},{b}");
        ensure_eq!(da == db, a == b, "eq of days {a},{b}");
        if a == b {
            ensure!(h(&da) == h(&db), "hash");
        }
        let (wa, wb) = (cal::iso_week(a), cal::iso_week(b));
        ensure_eq!(da.iso_week().cmp(&db.iso_week()), wa.cmp(&wb), "iso week cmp of days {a},{b}");
        ensure_eq!(da.iso_week() == db.iso_week(), wa == wb, "iso week eq of days {a},{b}");
        Ok(())
    }
}

fn edge_year() -> BoxedStrategy<i32> {
    prop_oneof![
        3 => (cal::MIN_YEAR as i32 - 3)..=(cal::MAX_YEAR as i32 + 3),
        2 => proptest::sample::select(vec![i32::MIN, i32::MIN + 1, i32::MAX, i32::MAX - 1, -262_145, -262_144, -262_143, -262_142, 262_141, 262_142, 262_143, 262_144, -1, 0, 1]),
        1 => gen::i32_edges(),
        2 => -500i32..2500,
    ]
    .boxed()
}

pub struct Ymd;
impl SubCheck for Ymd {
    type Case = (i32, u32, u32);
    fn name(&self) -> &'static str {
        "ctor_ymd"
    }
    fn rule(&self) -> &'static str {
        "case = (year, month, day) argument tuple of from_ymd_opt; non-trivial = denotes a date, or is a near miss (month 0/13, day 0 or month length+1, Feb 29 in a common year, year MIN-1/MAX+1, integer extreme)"
    }
    fn strategy(&self) -> Option<BoxedStrategy<Self::Case>> {
        Some((edge_year(), gen::u32_edges(vec![12, 13, 16]), gen::u32_edges(vec![28, 29, 30, 31, 32])).boxed())
    }
    fn check(&self, &(y, m, d): &Self::Case, obs: &mut Obs) -> Result<(), String> {
        let (yy, mm, dd) = (y as i64, m as i64, d as i64);
        let valid = cal::valid_ymd(yy, mm, dd);
        let in_range = (cal::MIN_YEAR..=cal::MAX_YEAR).contains(&yy);
        let got = call("from_ymd_opt", || NaiveDate::from_ymd_opt(y, m, d))?;
        if valid && in_range {
            obs.nt("valid");
            let z = cal::days_from_civil(yy, m, d);
            let g = got.ok_or_else(|| format!("from_ymd_opt({y},{m},{d}) = None for an existing date"))?;
            ensure_eq!(g.num_days_from_ce() as i64, z + cal::CE_SHIFT, "from_ymd_opt({y},{m},{d}) day number");
            ensure_eq!((g.year(), g.month(), g.day()), (y, m, d), "from_ymd_opt({y},{m},{d}) fields");
        } else {
            let near = (valid && (yy == cal::MIN_YEAR - 1 || yy == cal::MAX_YEAR + 1))
                || (in_range && (m == 0 || m == 13 || d == 0 || ((1..=12).contains(&m) && d == cal::days_in_month(yy, m) + 1)))
                || y == i32::MIN
                || y == i32::MAX
                || m == u32::MAX
                || d == u32::MAX;
            obs.nt_if(near, "near_miss");
            obs.label_if(valid && !in_range, "year_out_of_range");
            ensure_eq!(got, None, "from_ymd_opt({y},{m},{d}) denotes no representable date");
        }
        // the panicking (deprecated) spelling: a date for the same tuples, a panic for the others
        // (a panic costs microseconds: refused tuples take this route once in 64)
        if got.is_some() || (y as u32 ^ m.wrapping_mul(31) ^ d.wrapping_mul(131)) % 64 == 0 {
            #[allow(deprecated)]
            let pan = crate::guard::guard(|| NaiveDate::from_ymd(y, m, d));
            ensure_eq!(pan.ok(), got, "from_ymd({y},{m},{d}) vs from_ymd_opt (panic <-> None)");
        }
        Ok(())
    }
}

pub struct Yo;
impl SubCheck for Yo {
    type Case = (i32, u32);
    fn name(&self) -> &'static str {
        "ctor_yo"
    }
    fn rule(&self) -> &'static str {
        "case = (year, ordinal) of from_yo_opt; non-trivial = denotes a date, or near miss (ordinal 0, 366 in a common year, 367, year MIN-1/MAX+1, integer extreme)"
    }
    fn strategy(&self) -> Option<BoxedStrategy<Self::Case>> {
        Some((edge_year(), gen::u32_edges(vec![365, 366, 367, 512, 4096])).boxed())
    }
    fn check(&self, &(y, o): &Self::Case, obs: &mut Obs) -> Result<(), String> {
        let yy = y as i64;
        let in_range = (cal::MIN_YEAR..=cal::MAX_YEAR).contains(&yy);
        let day = cal::day_from_yo(yy, o as i64);
        let got = call("from_yo_opt", || NaiveDate::from_yo_opt(y, o))?;
        #[allow(deprecated)]
        if got.is_some() || (y as u32 ^ o.wrapping_mul(31)) % 64 == 0 {
            let pan = crate::guard::guard(|| NaiveDate::from_yo(y, o));
            ensure_eq!(pan.ok(), got, "from_yo({y},{o}) vs from_yo_opt (panic <-> None)");
        }
        match (day, in_range) {
            (Some(z), true) => {
                obs.nt("valid");
                let g = got.ok_or_else(|| format!("from_yo_opt({y},{o}) = None for an existing date"))?;
                ensure_eq!(g.num_days_from_ce() as i64, z + cal::CE_SHIFT, "from_yo_opt({y},{o}) day number");
                ensure_eq!((g.year(), g.ordinal()), (y, o), "from_yo_opt({y},{o}) fields");
            }
            _ => {
                let near = (day.is_some() && (yy == cal::MIN_YEAR - 1 || yy == cal::MAX_YEAR + 1))
                    || (in_range && (o == 0 || o == 366 || o == 367))
                    || y == i32::MIN
                    || y == i32::MAX
                    || o == u32::MAX;
                obs.nt_if(near, "near_miss");
                ensure_eq!(got, None, "from_yo_opt({y},{o}) denotes no representable date");
            }
        }
        Ok(())
    }
}

pub struct IsoYwd;
impl SubCheck for IsoYwd {
    type Case = (i32, u32, u8);
    fn name(&self) -> &'static str {
        "ctor_isoywd"
    }
    fn rule(&self) -> &'static str {
        "case = (ISO year, week, weekday) of from_isoywd_opt; non-trivial = denotes a representable date, or near miss (week 0, week 53 of a 52-week year, week 54, weekday spill into an unsupported year, year MIN-1/MAX+1, integer extreme)"
    }
    fn strategy(&self) -> Option<BoxedStrategy<Self::Case>> {
        Some((edge_year(), gen::u32_edges(vec![52, 53, 54, 64]), 0u8..7).boxed())
    }
    fn check(&self, &(y, w, wd): &Self::Case, obs: &mut Obs) -> Result<(), String> {
        let yy = y as i64;
        // ISO years MIN-1 and MAX+1 can still denote dates of the supported calendar years
        let day = if yy >= cal::MIN_YEAR - 1 && yy <= cal::MAX_YEAR + 1 { cal::day_from_isoywd(yy, w as i64, wd as u32) } else { None };
        let got = call("from_isoywd_opt", || NaiveDate::from_isoywd_opt(y, w, WD[wd as usize]))?;
        #[allow(deprecated)]
        if got.is_some() || (y as u32 ^ w.wrapping_mul(31) ^ wd as u32) % 64 == 0 {
            let pan = crate::guard::guard(|| NaiveDate::from_isoywd(y, w, WD[wd as usize]));
            ensure_eq!(pan.ok(), got, "from_isoywd({y},{w},{wd}) vs from_isoywd_opt (panic <-> None)");
        }
        match day {
            Some(z) if cal::in_range_day(z) => {
                obs.nt("valid");
                obs.label_if(cal::civil_from_days(z).0 != yy, "spills_into_other_calendar_year");
                let g = got.ok_or_else(|| format!("from_isoywd_opt({y},{w},{wd}) = None for an existing date (day {z})"))?;
                ensure_eq!(g.num_days_from_ce() as i64, z + cal::CE_SHIFT, "from_isoywd_opt({y},{w},{wd}) day number");
                ensure_eq!((g.iso_week().year(), g.iso_week().week(), g.weekday().num_days_from_monday()), (y, w, wd as u32), "from_isoywd_opt({y},{w},{wd}) fields");
            }
            _ => {
                let near = day.is_some()
                    || ((cal::MIN_YEAR..=cal::MAX_YEAR).contains(&yy) && (w == 0 || w == 53 || w == 54))
                    || y == i32::MIN
                    || y == i32::MAX
                    || w == u32::MAX;
                obs.nt_if(near, "near_miss");
                obs.label_if(day.is_some(), "spill_out_of_range");
                ensure_eq!(got, None, "from_isoywd_opt({y},{w},{wd}) denotes no representable date");
            }
        }
        Ok(())
    }
}

pub struct Ce;
impl SubCheck for Ce {
    type Case = i32;
    fn name(&self) -> &'static str {
        "ctor_ce"
    }
    fn rule(&self) -> &'static str {
        "case = i32 day number of from_num_days_from_ce_opt; non-trivial = in range, or within 400 days outside the range, or an integer extreme"
    }
    fn strategy(&self) -> Option<BoxedStrategy<i32>> {
        let lo = (cal::min_day() + cal::CE_SHIFT) as i32;
        let hi = (cal::max_day() + cal::CE_SHIFT) as i32;
        Some(
            prop_oneof![
                3 => gen::i32_edges(),
                2 => (-500i32..500).prop_map(move |d| lo + d),
                2 => (-500i32..500).prop_map(move |d| hi + d),
                1 => lo..=hi,
            ]
            .boxed(),
        )
    }
    fn check(&self, &n: &i32, obs: &mut Obs) -> Result<(), String> {
        let z = n as i64 - cal::CE_SHIFT;
        let got = call("from_num_days_from_ce_opt", || NaiveDate::from_num_days_from_ce_opt(n))?;
        #[allow(deprecated)]
        if got.is_some() || (n as u32).wrapping_mul(2_654_435_761) >> 26 == 0 {
            let pan = crate::guard::guard(|| NaiveDate::from_num_days_from_ce(n));
            ensure_eq!(pan.ok(), got, "from_num_days_from_ce({n}) vs from_num_days_from_ce_opt (panic <-> None)");
        }
        if cal::in_range_day(z) {
            obs.nt("valid");
            let g = got.ok_or_else(|| format!("from_num_days_from_ce_opt({n}) = None for an in-range day"))?;
            let (y, m, d) = cal::civil_from_days(z);
            ensure_eq!((g.year() as i64, g.month(), g.day()), (y, m, d), "from_num_days_from_ce_opt({n}) fields");
            ensure_eq!(g.num_days_from_ce(), n, "num_days_from_ce round trip of {n}");
        } else {
            let near = z >= cal::min_day() - 400 && z <= cal::max_day() + 400 || n == i32::MIN || n == i32::MAX;
            obs.nt_if(near, "near_miss");
            ensure_eq!(got, None, "from_num_days_from_ce_opt({n}) is outside the supported range");
        }
        Ok(())
    }
}

pub fn subs() -> Vec<Box<dyn DynSub>> {
    vec![Box::new(Dates), Box::new(Pairs), Box::new(Ymd), Box::new(Yo), Box::new(IsoYwd), Box::new(Ce)]
}

pub fn run(ctx: &Ctx) {
    // E1: the whole date domain, chronological chunks
    let (lo, hi) = (cal::min_day(), cal::max_day());
    let chunks = 4096usize;
    let per = (hi - lo + 1 + chunks as i64 - 1) / chunks as i64;
    ctx.run_enum_opt(&Dates, chunks, |c| {
        let a = lo + c as i64 * per;
        let b = (a + per - 1).min(hi);
        a..=b
    }, true, true);
    if ctx.failed() { return; }
    ctx.run_prop(&Pairs, ctx.n(400_000, 20_000_000));

    // E2: constructor argument spaces; years [MIN-2, MAX+2]
    let ylo = cal::MIN_YEAR as i32 - 2;
    let yhi = cal::MAX_YEAR as i32 + 2;
    let ny = (yhi - ylo + 1) as usize;
    let ychunks = 2048usize;
    let yper = (ny + ychunks - 1) / ychunks;
    let yrange = move |c: usize| {
        let a = ylo + (c * yper) as i32;
        let b = (a + yper as i32 - 1).min(yhi);
        a..=b
    };
    ctx.run_enum_opt(&Ymd, ychunks, |c| yrange(c).flat_map(|y| (0u32..=15).flat_map(move |m| (0u32..=35).map(move |d| (y, m, d)))), true, true);
    ctx.run_enum_opt(&Yo, ychunks, |c| yrange(c).flat_map(|y| (0u32..=370).map(move |o| (y, o))), true, true);
    ctx.run_enum_opt(&IsoYwd, ychunks, |c| yrange(c).flat_map(|y| (0u32..=55).flat_map(move |w| (0u8..7).map(move |d| (y, w, d)))), true, true);
    // day numbers
    match ctx.tier {
        Tier::Thorough => {
            let chunks = 4096usize;
            let per = (1u64 << 32) / chunks as u64;
            ctx.run_enum_opt(&Ce, chunks, |c| {
                let a = i32::MIN as i64 + (c as u64 * per) as i64;
                (a..a + per as i64).map(|v| v as i32)
            }, true, true);
        }
        Tier::Quick => {
            // +/-2e6 around zero, both range ends +/-2e6, a 2^24-point stride chosen by the seed, extremes
            let clo = (lo + cal::CE_SHIFT) as i64;
            let chi = (hi + cal::CE_SHIFT) as i64;
            let off = (ctx.seed % 256) as i64;
            ctx.run_enum_opt(&Ce, 16, |c| {
                let v: Box<dyn Iterator<Item = i32>> = match c {
                    0 => Box::new((-2_000_000i64..=2_000_000).map(|v| v as i32)),
                    1 => Box::new((clo - 2_000_000..=clo + 2_000_000).map(|v| v as i32)),
                    2 => Box::new((chi - 2_000_000..=chi + 2_000_000).map(|v| v as i32)),
                    3 => Box::new([i32::MIN, i32::MIN + 1, i32::MAX - 1, i32::MAX].into_iter()),
                    k => {
                        // stride 256 over the whole i32 range, split in 12 pieces
                        let k = (k - 4) as i64;
                        let n = (1i64 << 24) / 12 + 1;
                        Box::new((k * n..((k + 1) * n).min(1 << 24)).map(move |i| (i32::MIN as i64 + i * 256 + off) as i32))
                    }
                };
                v
            }, false, false);
        }
    }
    // E3: edge-biased full-range tuples
    let n3 = ctx.n(300_000, 20_000_000);
    ctx.run_prop(&Ymd, n3);
    ctx.run_prop(&Yo, n3);
    ctx.run_prop(&IsoYwd, n3);
    ctx.run_prop(&Ce, n3);
}
