//! C17 Rounding and truncation land on the right multiple.
use crate::engine::{Ctx, DynSub, Obs, SubCheck};
use crate::gen;
use crate::guard::call;
use crate::props::c04::shift;
use crate::props::c06::D;
use crate::props::c07::{tod, T};
use crate::refmodel::cal;
use crate::refmodel::inst::{self, Ndt, NS, TD_MAX_NS};
use crate::{conv, ensure, ensure_eq};
use chrono::{DateTime, DurationRound, FixedOffset, NaiveDateTime, RoundingError, SubsecRound, TimeZone, Timelike};
use proptest::prelude::*;
use serde::{Deserialize, Serialize};

#[derive(Clone, Debug, Serialize, Deserialize)]
pub struct RoundCase {
    pub u: Ndt,
    pub off: i32,
    pub span: D,
    /// 0 trunc, 1 round, 2 round_up
    pub op: u8,
    /// false: NaiveDateTime (offset ignored), true: DateTime<FixedOffset>
    pub zoned: bool,
}

fn model(s: i128, span: i128, op: u8) -> i128 {
    let down = s.div_euclid(span) * span;
    if down == s {
        return s;
    }
    let up = down + span;
    match op {
        0 => down,
        2 => up,
        _ => if up - s <= s - down { up } else { down },
    }
}

fn stamp_strategy() -> BoxedStrategy<Ndt> {
    let w = |x: i128| inst::split(x.clamp(inst::min_inst(), inst::max_inst()));
    prop_oneof![
        // inside the i64-nanosecond window
        4 => any::<i64>().prop_map(move |v| w(v as i128)),
        3 => (proptest::sample::select(vec![0i128, i64::MAX as i128, i64::MIN as i128]), -200_000_000_000_000i128..200_000_000_000_000).prop_map(move |(a, d)| w(a + d)),
        2 => (-4_000_000_000i128..4_000_000_000).prop_map(move |d| w(d)),
        1 => (proptest::sample::select(vec![i64::MAX as i128, i64::MIN as i128]), -3i128..=3).prop_map(move |(a, d)| w(a + d)),
        // outside
        2 => gen::ndt(),
        // range ends: with an offset the wall clock lies in the one-day headroom
        // (leap readings are the subject of `leap_operands_no_panic`, not of the multiples oracle)
        2 => crate::props::c04::utc().prop_map(|n| Ndt { frac: n.frac % 1_000_000_000, ..n }),
    ]
    .boxed()
}

fn span_strategy(stamp: i128) -> BoxedStrategy<D> {
    let a = stamp.abs().min(TD_MAX_NS);
    prop_oneof![
        // log-uniform in 1 ns .. i64::MAX ns
        4 => (0u32..63, any::<u64>()).prop_map(|(b, v)| D::of(((1u64 << b) | (v & ((1u64 << b) - 1))) as i128)),
        3 => proptest::sample::select(vec![1i128, 2, 3, 7, 10, 1000, 1_000_000, NS, 60 * NS, 3600 * NS, 86_400 * NS, 7 * 86_400 * NS, 900 * NS, 1_000_003, 999_999_937, 86_399 * NS, i64::MAX as i128, i64::MAX as i128 - 1]).prop_map(D::of),
        2 => (-2i128..=2).prop_map(move |e| D::of((a + e).clamp(-TD_MAX_NS, TD_MAX_NS))),
        1 => (-2i128..=2).prop_map(move |e| D::of((a / 2 + e).clamp(-TD_MAX_NS, TD_MAX_NS))),
        // invalid spans: zero, negative, longer than i64 nanoseconds
        2 => proptest::sample::select(vec![0i128, -1, -NS, -(i64::MAX as i128), i64::MAX as i128 + 1, i64::MAX as i128 + 1_000_000, TD_MAX_NS, -TD_MAX_NS, i64::MIN as i128]).prop_map(D::of),
    ]
    .boxed()
}

pub struct Round;
impl SubCheck for Round {
    type Case = RoundCase;
    fn name(&self) -> &'static str {
        "duration_round"
    }
    fn rule(&self) -> &'static str {
        "case = (UTC date-time, offset, span, trunc|round|round_up, naive|zone-aware); result = the right multiple of the span counted from the epoch on the wall clock, < one span away, idempotent, offset kept; Err exactly for span <= 0, span beyond i64 ns, wall-clock stamp beyond i64 ns; non-trivial = negative stamp, tie, exact multiple, span not dividing a day, span > |stamp|, error case, or headroom wall clock"
    }
    fn strategy(&self) -> Option<BoxedStrategy<RoundCase>> {
        Some(
            (stamp_strategy(), gen::offset_secs(), 0u8..3, any::<bool>())
                .prop_flat_map(|(u, off, op, zoned)| {
                    let s = inst::join(u) + if zoned { off as i128 * NS } else { 0 };
                    // sometimes pick spans that make `s` a tie or an exact multiple
                    let special = (1i128..1000, any::<bool>()).prop_map(move |(k, tie)| {
                        let a = s.abs();
                        if tie { D::of(((a / k.max(1)) * 2).clamp(1, i64::MAX as i128)) } else { D::of((a / k.max(1)).clamp(1, i64::MAX as i128)) }
                    });
                    (Just(u), Just(off), prop_oneof![4 => span_strategy(s), 1 => special], Just(op), Just(zoned))
                })
                .prop_map(|(u, off, span, op, zoned)| RoundCase { u, off, span, op, zoned })
                .boxed(),
        )
    }
    fn check(&self, c: &RoundCase, obs: &mut Obs) -> Result<(), String> {
        let span = c.span.ns();
        let td = c.span.td()?;
        let off = if c.zoned { c.off } else { 0 };
        let wall = shift(c.u, off as i64);
        let s = inst::join(wall);
        let span_ok = span > 0 && span <= i64::MAX as i128;
        let stamp_ok = i64::try_from(s).is_ok();
        obs.nt_if(s < 0, "negative_stamp");
        obs.nt_if(!span_ok || !stamp_ok, "error_case");
        obs.nt_if(c.zoned && !cal::in_range_day(wall.day), "headroom");
        if span_ok {
            obs.nt_if(s.rem_euclid(span) == 0, "exact_multiple");
            obs.nt_if(s.rem_euclid(span) * 2 == span, "tie");
            obs.nt_if((86_400 * NS) % span != 0, "span_not_dividing_day");
            obs.nt_if(span > s.abs(), "span_longer_than_stamp");
        }
        let nu = conv::ndt(c.u);
        let name = ["duration_trunc", "duration_round", "duration_round_up"][c.op as usize];
        // run the operation; returns the (UTC model, offset) of the result
        let run_naive = |x: NaiveDateTime| -> Result<Result<NaiveDateTime, RoundingError>, String> {
            call(name, || match c.op { 0 => x.duration_trunc(td), 1 => x.duration_round(td), _ => x.duration_round_up(td) })
        };
        let run_zoned = |x: DateTime<FixedOffset>| -> Result<Result<DateTime<FixedOffset>, RoundingError>, String> {
            call(name, || match c.op { 0 => x.duration_trunc(td), 1 => x.duration_round(td), _ => x.duration_round_up(td) })
        };
        let got: Result<(i128, i32), RoundingError> = if c.zoned {
            let fo = FixedOffset::east_opt(c.off).ok_or("harness: offset")?;
            let x = fo.from_utc_datetime(&nu);
            match run_zoned(x)? {
                Ok(r) => {
                    let ru = inst::join(conv::model_of(&r.naive_utc()));
                    // idempotent (as long as the result is still inside the 64-bit window: rounding
                    // up at the very end of the window may legitimately leave it)
                    if i64::try_from(ru + c.off as i128 * NS).is_ok() {
                        ensure_eq!(run_zoned(r)?, Ok(r), "{name} is not idempotent (zone-aware)");
                    } else {
                        obs.nt("result_leaves_window");
                    }
                    Ok((ru, r.offset().local_minus_utc()))
                }
                Err(e) => Err(e),
            }
        } else {
            match run_naive(nu)? {
                Ok(r) => {
                    let ru = inst::join(conv::model_of(&r));
                    if i64::try_from(ru).is_ok() {
                        ensure_eq!(run_naive(r)?, Ok(r), "{name} is not idempotent");
                    } else {
                        obs.nt("result_leaves_window");
                    }
                    Ok((ru, 0))
                }
                Err(e) => Err(e),
            }
        };
        match got {
            Ok((ru, roff)) => {
                ensure!(span_ok && stamp_ok, "{name}(stamp {s}, span {span}) succeeded although span_ok={span_ok} stamp_ok={stamp_ok}");
                let exp_wall = model(s, span, c.op);
                ensure_eq!(roff, off, "{name}: offset kept");
                ensure_eq!(ru + off as i128 * NS, exp_wall, "{name}(wall stamp {s}, span {span}): wall clock of the result");
                ensure!((exp_wall - s).abs() < span, "model: result a span or more away");
            }
            Err(e) => {
                ensure!(!span_ok || !stamp_ok, "{name}(stamp {s}, span {span}) = Err({e:?}) although the span is valid and the stamp fits in 64 bits");
                if !span_ok && stamp_ok {
                    ensure_eq!(e, RoundingError::DurationExceedsLimit, "{name}: error class for span {span}");
                }
                if span_ok && !stamp_ok {
                    ensure_eq!(e, RoundingError::TimestampExceedsLimit, "{name}: error class for stamp {s}");
                }
            }
        }
        Ok(())
    }
}

// ---------------------------------------------------------------------------------------------
pub struct Subsec;
impl SubCheck for Subsec {
    type Case = (i64, T, u16, i32);
    fn name(&self) -> &'static str {
        "subsec_round"
    }
    fn rule(&self) -> &'static str {
        "case = (date, time, digits, offset); round_subsecs / trunc_subsecs on NaiveTime, NaiveDateTime and DateTime<FixedOffset>: nearest (ties up) / greatest multiple of 10^(9-digits) ns within the second, carry into the next second (minute, day) when rounding up, identity for digits >= 9; non-trivial = carry into the next second, tie, digits >= 9, or already a multiple"
    }
    fn strategy(&self) -> Option<BoxedStrategy<Self::Case>> {
        let digits = prop_oneof![4 => 0u16..=10, 1 => any::<u16>(), 1 => proptest::sample::select(vec![8u16, 9, 10, 255, 256, u16::MAX])];
        let frac = prop_oneof![
            3 => 0u32..1_000_000_000,
            3 => (0u32..9, 0u32..1000, proptest::sample::select(vec![0u32, 1, 4, 5, 6, 9])).prop_map(|(d, hi, lo)| {
                // values like ...4999.. / ...5000.. around a rounding boundary at digit d
                let p = 10u32.pow(d);
                ((hi as u64 * p as u64 * 10 + lo as u64 * p as u64 + if lo == 4 { p as u64 - 1 } else { 0 }) % 1_000_000_000) as u32
            }),
            2 => proptest::sample::select(vec![0u32, 1, 499_999_999, 500_000_000, 500_000_001, 999_999_999, 999_999_500, 999_500_000, 950_000_000]),
        ];
        // keep one day away from the range ends: the operations are infallible by signature
        let day = (cal::min_day() + 1..cal::max_day()).boxed();
        Some((prop_oneof![3 => gen::day().prop_map(|d| d.clamp(cal::min_day() + 1, cal::max_day() - 1)), 1 => day], tod(), frac, digits, gen::offset_secs()).prop_map(|(z, t, f, dg, off)| (z, T { secs: t.secs, frac: f }, dg, off)).boxed())
    }
    fn check(&self, &(z, t, digits, off): &Self::Case, obs: &mut Obs) -> Result<(), String> {
        let span: i128 = if digits >= 9 { 1 } else { 10i128.pow(9 - digits as u32) };
        let u = Ndt { day: z, secs: t.secs, frac: t.frac };
        let s = inst::join(u);
        let f = t.frac as i128;
        let down = s - f % span;
        let up = if f % span == 0 { s } else { down + span };
        let round = if f % span == 0 { s } else if up - s <= s - down { up } else { down };
        obs.nt_if(digits >= 9, "digits_ge_9");
        obs.nt_if(f % span == 0, "already_multiple");
        obs.nt_if((f % span) * 2 == span, "tie");
        obs.nt_if(round.div_euclid(NS) != s.div_euclid(NS), "carry_into_next_second");
        obs.label_if(round.div_euclid(inst::DAY_NS) != s.div_euclid(inst::DAY_NS), "carry_into_next_day");
        let n = conv::ndt(u);
        let r = call("round_subsecs", || n.round_subsecs(digits))?;
        ensure_eq!(inst::join(conv::model_of(&r)), round, "NaiveDateTime::round_subsecs({digits}) of {s}");
        let tr = call("trunc_subsecs", || n.trunc_subsecs(digits))?;
        ensure_eq!(inst::join(conv::model_of(&tr)), down, "NaiveDateTime::trunc_subsecs({digits}) of {s}");
        ensure_eq!(call("round_subsecs", || r.round_subsecs(digits))?, r, "round_subsecs idempotent");
        ensure_eq!(call("trunc_subsecs", || tr.trunc_subsecs(digits))?, tr, "trunc_subsecs idempotent");
        // time of day: wraps
        let nt = t.build()?;
        let rt = call("NaiveTime::round_subsecs", || nt.round_subsecs(digits))?;
        ensure_eq!(T::of(&rt), { let x = inst::split(round); T { secs: x.secs, frac: x.frac } }, "NaiveTime::round_subsecs({digits})");
        let tt = call("NaiveTime::trunc_subsecs", || nt.trunc_subsecs(digits))?;
        ensure_eq!(T::of(&tt), T { secs: t.secs, frac: (f - f % span) as u32 }, "NaiveTime::trunc_subsecs({digits})");
        // zone-aware: same instant arithmetic, offset kept
        let fo = FixedOffset::east_opt(off).ok_or("harness: offset")?;
        let x = fo.from_utc_datetime(&n);
        let rx = call("DateTime::round_subsecs", || x.round_subsecs(digits))?;
        ensure_eq!((inst::join(conv::model_of(&rx.naive_utc())), rx.offset().local_minus_utc()), (round, off), "DateTime::round_subsecs({digits})");
        let tx = call("DateTime::trunc_subsecs", || x.trunc_subsecs(digits))?;
        ensure_eq!((inst::join(conv::model_of(&tx.naive_utc())), tx.offset().local_minus_utc()), (down, off), "DateTime::trunc_subsecs({digits})");
        ensure!(rx.nanosecond() as i128 % span == 0 && tx.nanosecond() as i128 % span == 0, "result is not a multiple within the second");
        Ok(())
    }
}

// ---------------------------------------------------------------------------------------------
pub struct LeapNoPanic;
impl SubCheck for LeapNoPanic {
    type Case = (i64, T, D, u16);
    fn name(&self) -> &'static str {
        "leap_operands_no_panic"
    }
    fn rule(&self) -> &'static str {
        "case = (date inside the 64-bit window, leap-second time incl. exact ties for the digit count and the last unit of the second, span, digits); duration_*: the statement does not define epoch-relative multiples for leap-second operands, so only no panic, valid values, and the DateTime route agreeing with the NaiveDateTime route on the same wall clock; round_subsecs / trunc_subsecs: nearest (ties up) / lower multiple of the sub-second part within the leap second, carrying into the next second; every case has a leap operand (non-trivial)"
    }
    fn strategy(&self) -> Option<BoxedStrategy<Self::Case>> {
        Some(
            (prop_oneof![6 => -100_000i64..100_000, 1 => -2i64..=1], prop_oneof![6 => (0u32..1440).prop_map(|m| m * 60 + 59), 1 => Just(86_399u32), 1 => Just(59u32)], 1_000_000_000u32..2_000_000_000, prop_oneof![3 => span_strategy(1_000_000_007), 1 => proptest::sample::select(vec![1i128, 2, 5, 8, 10, 125, 1000, 250_000, 1_000_000, 100_000_000, 500_000_000, 1_000_000_000]).prop_map(D::of)], 0u16..12, 0u8..6, any::<u32>())
                .prop_map(|(z, secs, raw, span, dg, mode, k)| {
                    // fractions that are exact ties for the digit count, in particular in the last unit of the
                    // leap second (where rounding up carries out of it)
                    let unit: u64 = 10u64.pow(9 - (dg as u32).min(9));
                    let frac = match mode {
                        0 => 1_000_000_000 + ((k as u64 % (1_000_000_000 / unit)) * unit + unit / 2) % 1_000_000_000,
                        1 => 2_000_000_000 - unit / 2,
                        2 => 2_000_000_000 - unit / 2 - 1,
                        3 => (2_000_000_000 - unit / 2 + 1).min(1_999_999_999),
                        _ => raw as u64,
                    }
                    .clamp(1_000_000_000, 1_999_999_999) as u32;
                    (z, T { secs, frac }, span, dg)
                })
                .boxed(),
        )
    }
    fn check(&self, &(z, t, span, digits): &Self::Case, obs: &mut Obs) -> Result<(), String> {
        obs.nt("leap_operand");
        let n = conv::date(z).and_time(t.build()?);
        let td = span.td()?;
        for op in 0..3 {
            let f = |x: NaiveDateTime| match op { 0 => x.duration_trunc(td), 1 => x.duration_round(td), _ => x.duration_round_up(td) };
            // the epoch-relative stamp of a leap second is not defined by the statement, and adding the
            // remainder to a leap-second operand skips the leap second, so neither the multiple nor
            // idempotence is asserted: only "returns normally, with a valid value"
            if let Ok(r) = call("duration_* on a leap second", || f(n))? {
                ensure!(r.nanosecond() < 2_000_000_000 && r >= NaiveDateTime::MIN && r <= NaiveDateTime::MAX, "invalid value from op {op}");
            }
        }
        // spans that divide one second only look at the sub-second part: inside the leap second the multiples
        // are as well defined as for round_subsecs (carrying into the next second at its end)
        let span_ns = span.ns();
        if span_ns > 0 && 1_000_000_000 % span_ns == 0 {
            obs.label("span_divides_one_second");
            let f = t.frac as i128 - 1_000_000_000;
            let down = f - f % span_ns;
            let up = if f % span_ns == 0 { f } else { down + span_ns };
            let near = if f % span_ns == 0 { f } else if up - f <= f - down { up } else { down };
            let at = |v: i128| -> Result<NaiveDateTime, String> {
                Ok(if v < 1_000_000_000 { conv::date(z).and_time(T { secs: t.secs, frac: (v + 1_000_000_000) as u32 }.build()?) } else { conv::date(z).and_time(T { secs: t.secs, frac: 0 }.build()?) + chrono::TimeDelta::seconds(1) })
            };
            for (name, exp, got) in [
                ("duration_trunc", at(down)?, call("duration_trunc", || n.duration_trunc(td))?),
                ("duration_round", at(near)?, call("duration_round", || n.duration_round(td))?),
                ("duration_round_up", at(up)?, call("duration_round_up", || n.duration_round_up(td))?),
            ] {
                ensure_eq!(got, Ok(exp), "{name}({td:?}) of the leap reading {t:?} on day {z}");
            }
        }
        // zone-aware values round on the wall-clock reading: the DateTime route applied to a value whose
        // wall clock is `n` gives the NaiveDateTime route's answer as its wall clock, leap reading or not
        let off = [0i32, 3600, -3600 * 5 - 1800, ((z * 7919 + t.secs as i64).rem_euclid(172_799) - 86_399) as i32][(digits % 4) as usize];
        let fo = FixedOffset::east_opt(off).ok_or("harness: offset")?;
        obs.label_if(off > 0, "positive_offset");
        obs.label_if(off % 60 != 0, "offset_with_seconds");
        let dt = fo.from_local_datetime(&n).single().ok_or("harness: from_local_datetime")?;
        for op in 0..3 {
            let name = ["duration_trunc", "duration_round", "duration_round_up"][op];
            let a = call("NaiveDateTime route", || match op { 0 => n.duration_trunc(td), 1 => n.duration_round(td), _ => n.duration_round_up(td) })?;
            let b = call("DateTime route", || match op { 0 => dt.duration_trunc(td), 1 => dt.duration_round(td), _ => dt.duration_round_up(td) })?;
            match (a, b) {
                (Ok(x), Ok(y)) => {
                    ensure_eq!(y.naive_local(), x, "{name}({td:?}) on wall clock {n:?} at offset {off}: DateTime route vs NaiveDateTime route");
                    ensure_eq!(y.offset().local_minus_utc(), off, "{name}: offset kept");
                }
                (Err(x), Err(y)) => ensure_eq!(x, y, "{name}({td:?}) on wall clock {n:?}: error of the DateTime route vs the NaiveDateTime route"),
                (x, y) => return Err(format!("{name}({td:?}) on wall clock {n:?} at offset {off}: NaiveDateTime route gives {x:?}, DateTime route gives {:?}", y.map(|v| v.naive_local()))),
            }
        }
        // within the second the multiples are defined: the sub-second part (counted from the start of the
        // leap second) goes to the nearest / the lower multiple, ties up, carrying into the next second
        {
            let unit: i64 = 10i64.pow(9 - (digits as u32).min(9));
            let f = t.frac as i64 - 1_000_000_000;
            let down = f - f % unit;
            let up = down + unit;
            let rounded = if f % unit == 0 { f } else if up - f <= f - down { up } else { down };
            obs.nt_if(f % unit != 0 && up - f == f - down, "exact_tie");
            obs.nt_if(rounded == 1_000_000_000, "carries_out_of_the_leap_second");
            let exp_r = if rounded < 1_000_000_000 {
                conv::date(z).and_time(T { secs: t.secs, frac: (rounded + 1_000_000_000) as u32 }.build()?)
            } else {
                conv::date(z).and_time(T { secs: t.secs, frac: 0 }.build()?) + chrono::TimeDelta::seconds(1)
            };
            ensure_eq!(call("round_subsecs on a leap second", || n.round_subsecs(digits))?, exp_r, "round_subsecs({digits}) of leap reading {t:?}");
            let exp_t = conv::date(z).and_time(T { secs: t.secs, frac: (down + 1_000_000_000) as u32 }.build()?);
            ensure_eq!(call("trunc_subsecs on a leap second", || n.trunc_subsecs(digits))?, exp_t, "trunc_subsecs({digits}) of leap reading {t:?}");
            ensure_eq!(call("NaiveTime::round_subsecs", || n.time().round_subsecs(digits))?, exp_r.time(), "NaiveTime::round_subsecs({digits}) of leap reading {t:?}");
            ensure_eq!(call("DateTime::round_subsecs", || n.and_utc().round_subsecs(digits))?.naive_utc(), exp_r, "DateTime::round_subsecs({digits}) of leap reading {t:?}");
        }
        let r = call("round_subsecs on a leap second", || n.round_subsecs(digits))?;
        ensure_eq!(call("round_subsecs", || r.round_subsecs(digits))?, r, "round_subsecs idempotent on leap operand");
        let tr = call("trunc_subsecs on a leap second", || n.trunc_subsecs(digits))?;
        ensure_eq!(call("trunc_subsecs", || tr.trunc_subsecs(digits))?, tr, "trunc_subsecs idempotent on leap operand");
        Ok(())
    }
}

pub struct VarZoneRound;
impl SubCheck for VarZoneRound {
    type Case = (i64, i32, i32, i64, u32, u16, D);
    fn name(&self) -> &'static str {
        "rounding_in_variable_zone"
    }
    fn rule(&self) -> &'static str {
        "case = (zone with one offset change, instant near the change - inside the repeated or next to the skipped wall-clock interval - or far away, nanoseconds, digits, span): sub-second rounding / truncation of a DateTime in that zone changes the nanoseconds (and, when rounding up carries, the second) of the same occurrence - the instant never jumps to the other occurrence of the wall clock; duration_trunc / round / round_up give the NaiveDateTime route's answer for the wall clock, as an instant of the zone; non-trivial = the wall clock of the value occurs twice"
    }
    fn strategy(&self) -> Option<BoxedStrategy<Self::Case>> {
        Some(
            (-2_000_000_000i64..4_000_000_000, (-40i32..=40, -6i32..=6).prop_filter_map("no change", |(q, d)| if d != 0 { Some((q * 900, q * 900 + d * 900)) } else { None }), prop_oneof![4 => -8_000i64..8_000, 1 => -40_000_000i64..40_000_000], 0u32..1_000_000_000, 0u16..12, span_strategy(1_000_000_007))
                .prop_map(|(t, (a, b), d, ns, dg, span)| (t, a, b, t + d, ns, dg, span))
                .boxed(),
        )
    }
    fn check(&self, &(t, a, b, u, ns, digits, span): &Self::Case, obs: &mut Obs) -> Result<(), String> {
        use crate::props::c14::OneStep;
        let tz = OneStep { t, a, b };
        let utc = DateTime::from_timestamp(u, ns).ok_or("harness: instant")?.naive_utc();
        let dt = tz.from_utc_datetime(&utc);
        let off = dt.offset().local_minus_utc();
        let wall = u + off as i64;
        obs.nt_if(tz.preimage(wall).len() == 2, "repeated_wall_clock");
        obs.label_if(tz.preimage(wall).len() == 1, "wall_clock_once");
        let unit: u32 = 10u32.pow(9 - (digits as u32).min(9));
        let down = ns - ns % unit;
        let tr = call("trunc_subsecs", || dt.trunc_subsecs(digits))?;
        ensure_eq!((tr.timestamp(), tr.timestamp_subsec_nanos(), tr.offset().local_minus_utc()), (u, down, off), "trunc_subsecs({digits}) of instant {u}.{ns:09} in zone {t}|{a}->{b}");
        let up = ns % unit != 0 && unit - ns % unit <= ns % unit;
        let (es, en) = if up { if down + unit == 1_000_000_000 { (u + 1, 0) } else { (u, down + unit) } } else { (u, down) };
        let rd = call("round_subsecs", || dt.round_subsecs(digits))?;
        ensure_eq!((rd.timestamp(), rd.timestamp_subsec_nanos()), (es, en), "round_subsecs({digits}) of instant {u}.{ns:09} in zone {t}|{a}->{b}");
        ensure_eq!(rd.offset().local_minus_utc(), if es >= t { b } else { a }, "offset after round_subsecs");
        // span rounding: same answer as the NaiveDateTime route on the wall clock, realised as the instant
        // that lies the same distance from the original
        let td = span.td()?;
        let nl = dt.naive_local();
        for op in 0..3 {
            let name = ["duration_trunc", "duration_round", "duration_round_up"][op];
            let x = call("NaiveDateTime route", || match op { 0 => nl.duration_trunc(td), 1 => nl.duration_round(td), _ => nl.duration_round_up(td) })?;
            let y = call("DateTime route", || match op { 0 => dt.duration_trunc(td), 1 => dt.duration_round(td), _ => dt.duration_round_up(td) })?;
            match (x, y) {
                (Ok(x), Ok(y)) => ensure_eq!(y.naive_utc() - utc, x - nl, "{name}({td:?}) in zone {t}|{a}->{b}: distance moved by the DateTime route vs the NaiveDateTime route on the wall clock {nl:?}"),
                (Err(x), Err(y)) => ensure_eq!(x, y, "{name}: error classes"),
                (x, y) => return Err(format!("{name}({td:?}) on wall clock {nl:?}: NaiveDateTime route {x:?}, DateTime route {:?}", y.map(|v| v.naive_utc()))),
            }
        }
        Ok(())
    }
}

pub struct ErrorClasses;
impl SubCheck for ErrorClasses {
    type Case = u8;
    fn name(&self) -> &'static str {
        "error_classes"
    }
    fn rule(&self) -> &'static str {
        "single case: the three RoundingError classes are pairwise distinct as values and as Display text (a failure is reported as the class it belongs to); non-trivial by construction"
    }
    fn check(&self, _: &u8, obs: &mut Obs) -> Result<(), String> {
        use chrono::RoundingError::*;
        obs.nt("error_classes");
        let all = [DurationExceedsTimestamp, DurationExceedsLimit, TimestampExceedsLimit];
        let texts: Vec<String> = all.iter().map(|e| e.to_string()).collect();
        ensure!(texts.iter().all(|t| !t.is_empty()), "empty error text: {texts:?}");
        ensure!(texts[0] != texts[1] && texts[0] != texts[2] && texts[1] != texts[2], "the Display texts of the RoundingError classes are not pairwise distinct: {texts:?}");
        ensure!(all[0] != all[1] && all[1] != all[2] && all[0] != all[2], "RoundingError classes compare equal");
        Ok(())
    }
}

pub fn subs() -> Vec<Box<dyn DynSub>> {
    vec![Box::new(Round), Box::new(Subsec), Box::new(LeapNoPanic), Box::new(ErrorClasses), Box::new(VarZoneRound)]
}

pub fn run(ctx: &Ctx) {
    ctx.run_cases(&ErrorClasses, vec![0u8]);
    let n = ctx.n(6_000_000, 300_000_000);
    ctx.run_prop(&Round, n);
    ctx.run_prop(&Subsec, n / 2);
    ctx.run_prop(&LeapNoPanic, n / 6);
    ctx.run_prop(&VarZoneRound, n / 6);
}
