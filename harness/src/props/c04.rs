//! C04 Zone-aware date-times: one instant, many wall clocks.
use crate::engine::{Ctx, DynSub, Obs, SubCheck};
use crate::gen;
use crate::guard::{call, expect_panic};
use crate::props::c07::{tod, T};
use crate::refmodel::inst::Ndt;
use crate::refmodel::{cal, fmt as rfmt};
use crate::{conv, ensure, ensure_eq};
use chrono::{DateTime, Datelike, Days, FixedOffset, MappedLocalTime, Months, NaiveDateTime, TimeZone, Timelike, Utc};
use proptest::prelude::*;
use serde::{Deserialize, Serialize};
use std::collections::hash_map::DefaultHasher;
use std::hash::{Hash, Hasher};

fn h<X: Hash>(x: &X) -> u64 {
    let mut s = DefaultHasher::new();
    x.hash(&mut s);
    s.finish()
}

/// add whole seconds to (day, secs); the nanosecond field (incl. leap) is untouched
pub fn shift(n: Ndt, secs: i64) -> Ndt {
    let t = n.secs as i64 + secs;
    Ndt { day: n.day + t.div_euclid(86_400), secs: t.rem_euclid(86_400) as u32, frac: n.frac }
}
/// within [MIN_UTC, MAX_UTC]; a leap-second reading on the very last second of the range compares
/// greater than the documented maximum (NaiveDateTime::MAX = ...23:59:59.999999999) and is outside
pub fn representable(n: Ndt) -> bool {
    cal::in_range_day(n.day) && !(n.day == cal::max_day() && n.secs == 86_399 && n.frac >= 1_000_000_000)
}
fn key(n: Ndt) -> (i64, u32, u32) {
    (n.day, n.secs, n.frac)
}

/// UTC date-time biased to the range ends (headroom) and to times near midnight
pub fn utc() -> BoxedStrategy<Ndt> {
    let near_end = (0i64..3, any::<bool>(), tod()).prop_map(|(d, hi, t)| Ndt { day: if hi { cal::max_day() - d } else { cal::min_day() + d }, secs: t.secs, frac: t.frac % 1_000_000_000 });
    let near_midnight = (gen::day(), 0u32..7200, any::<bool>(), 0u32..1_000_000_000).prop_map(|(day, s, late, frac)| Ndt { day, secs: if late { 86_399 - s } else { s }, frac });
    // leap-second readings (a UTC leap second sits on second :59; seen through an offset with seconds
    // the wall clock shows it on another second)
    let leap = (gen::day(), 0u32..1440, 1_000_000_000u32..2_000_000_000).prop_map(|(day, m, frac)| Ndt { day: day.clamp(cal::min_day() + 1, cal::max_day() - 1), secs: m * 60 + 59, frac });
    // within a day of the start of a year / month: the wall-clock year or month differs from the UTC one
    let near_month_start = (cal::MIN_YEAR + 1..cal::MAX_YEAR, prop_oneof![2 => Just(1u32), 1 => 1u32..=12], -86_400i64..86_400, 0u32..1_000_000_000).prop_map(|(y, m, ds, frac)| {
        let z = cal::days_from_civil(y, m, 1) * 86_400 + ds;
        Ndt { day: z.div_euclid(86_400), secs: z.rem_euclid(86_400) as u32, frac }
    });
    prop_oneof![3 => gen::ndt(), 3 => near_end, 2 => near_midnight, 1 => leap, 2 => near_month_start].boxed()
}

fn classify(u: Ndt, off: i32, obs: &mut Obs) -> Ndt {
    let w = shift(u, off as i64);
    obs.nt_if(w.day != u.day, "wall_date_differs_from_utc_date");
    obs.nt_if(!cal::in_range_day(w.day), "headroom");
    obs.nt_if(off % 3600 != 0, "offset_not_whole_hour");
    obs.label_if(off % 60 != 0, "offset_with_seconds");
    w
}

fn check_wall_accessors(dt: &DateTime<FixedOffset>, w: Ndt) -> Result<(), String> {
    let f = cal::fields(w.day);
    ensure_eq!(dt.year() as i64, f.year, "year() of wall clock");
    ensure_eq!((dt.month(), dt.month0(), dt.day(), dt.day0()), (f.month, f.month - 1, f.day, f.day - 1), "month/day of wall clock");
    ensure_eq!((dt.ordinal(), dt.ordinal0()), (f.ordinal, f.ordinal - 1), "ordinal of wall clock");
    ensure_eq!(dt.weekday().num_days_from_monday(), f.weekday, "weekday of wall clock");
    ensure_eq!((dt.iso_week().year() as i64, dt.iso_week().week()), (f.iso_year, f.iso_week), "iso week of wall clock");
    ensure_eq!((dt.hour(), dt.minute(), dt.second(), dt.nanosecond()), (w.secs / 3600, w.secs / 60 % 60, w.secs % 60, w.frac), "clock fields of wall clock");
    ensure_eq!(dt.num_seconds_from_midnight(), w.secs, "num_seconds_from_midnight");
    let h = w.secs / 3600;
    ensure_eq!(dt.hour12(), (h >= 12, if h % 12 == 0 { 12 } else { h % 12 }), "hour12 of wall clock");
    ensure_eq!(dt.num_days_from_ce() as i64, w.day + cal::CE_SHIFT, "num_days_from_ce of wall clock");
    ensure_eq!(dt.year_ce(), (f.year >= 1, if f.year >= 1 { f.year as u32 } else { (1 - f.year) as u32 }), "year_ce of wall clock");
    ensure_eq!(dt.quarter(), (f.month - 1) / 3 + 1, "quarter of wall clock");
    ensure_eq!(crate::props::c07::T::of(&dt.time()), T { secs: w.secs, frac: w.frac }, "time()");
    Ok(())
}

// ---------------------------------------------------------------------------------------------
pub struct Construct;
impl SubCheck for Construct {
    type Case = (Ndt, i32, i32);
    fn name(&self) -> &'static str {
        "construct_and_read"
    }
    fn rule(&self) -> &'static str {
        "case = (UTC date-time, offset, second offset); from_utc_datetime / from_local_datetime identities, naive_local (panics exactly when the wall clock leaves the range), accessors, Display/Debug and zone conversion on the wall clock; non-trivial = wall date differs from UTC date, or the wall clock lies in the one-day headroom, or the offset is not a whole hour"
    }
    fn strategy(&self) -> Option<BoxedStrategy<Self::Case>> {
        Some((utc(), gen::offset_secs(), gen::offset_secs()).boxed())
    }
    fn check(&self, &(u, off, off2): &Self::Case, obs: &mut Obs) -> Result<(), String> {
        let w = classify(u, off, obs);
        let nu = conv::ndt(u);
        let fo = FixedOffset::east_opt(off).ok_or("harness: offset")?;
        ensure_eq!(fo.local_minus_utc(), off, "FixedOffset::east_opt({off}).local_minus_utc()");
        ensure_eq!(FixedOffset::west_opt(-off).map(|o| o.local_minus_utc()), Some(off), "west_opt");
        #[allow(deprecated)]
        {
            // the deprecated panicking constructors name the same offsets
            ensure_eq!(crate::guard::guard(|| FixedOffset::east(off)).ok(), Some(fo), "FixedOffset::east({off})");
            ensure_eq!(crate::guard::guard(|| FixedOffset::west(-off)).ok(), Some(fo), "FixedOffset::west({})", -off);
            ensure_eq!(fo.utc_minus_local(), -off, "utc_minus_local");
        }
        let dt = call("from_utc_datetime", || fo.from_utc_datetime(&nu))?;
        ensure_eq!(dt.naive_utc(), nu, "from_utc_datetime(u).naive_utc()");
        ensure_eq!(dt.offset().local_minus_utc(), off, "offset kept");
        ensure_eq!(DateTime::<FixedOffset>::from_naive_utc_and_offset(nu, fo), dt, "from_naive_utc_and_offset");
        check_wall_accessors(&dt, w)?;
        // text forms show the wall clock, also in the headroom
        let disp = call("Display", || dt.to_string())?;
        ensure_eq!(disp, format!("{} {} {}", rfmt::date(w.day), rfmt::time(w.secs, w.frac), rfmt::offset(off)), "Display");
        let dbg = call("Debug", || format!("{dt:?}"))?;
        ensure_eq!(dbg, format!("{}T{}{}", rfmt::date(w.day), rfmt::time(w.secs, w.frac), rfmt::offset(off)), "Debug");
        if cal::in_range_day(w.day) {
            let nl = call("naive_local", || dt.naive_local())?;
            ensure_eq!(key(conv::model_of(&nl)), key(w), "naive_local()");
            ensure_eq!(conv::unix_day_of(call("date_naive", || dt.date_naive())?), w.day, "date_naive()");
            // the deprecated zoned date holds the wall-clock date and gives the value back with its time
            #[allow(deprecated)]
            {
                let zd = call("date", || dt.date())?;
                ensure_eq!(conv::unix_day_of(zd.naive_local()), w.day, "date().naive_local()");
                ensure_eq!((zd.year() as i64, zd.ordinal()), { let f = cal::fields(w.day); (f.year, f.ordinal) }, "date() year / ordinal");
                ensure_eq!(zd.offset().local_minus_utc(), off, "date().offset()");
                ensure_eq!(call("date().and_time", || zd.and_time(dt.time()))?, Some(dt), "date().and_time(time())");
            }
            // building from the wall clock is the identity
            match call("from_local_datetime", || fo.from_local_datetime(&nl))? {
                MappedLocalTime::Single(b) => {
                    ensure_eq!(b, dt, "from_local_datetime(wall) instant");
                    ensure_eq!(b.naive_local(), nl, "from_local_datetime(l).naive_local()");
                }
                other => return Err(format!("from_local_datetime(wall clock of a representable instant) = {other:?}")),
            }
            ensure_eq!(nl.and_local_timezone(fo).single(), Some(dt), "and_local_timezone");
        } else {
            expect_panic("naive_local() of an out-of-range wall clock (documented)", || dt.naive_local())?;
        }
        // from_local_datetime with the *UTC* value read as a wall clock: fails only when the UTC side leaves the range
        let as_local_utc = shift(u, -(off as i64));
        match call("from_local_datetime", || fo.from_local_datetime(&nu))? {
            MappedLocalTime::Single(b) => {
                ensure!(representable(as_local_utc), "from_local_datetime built an instant outside the supported range");
                ensure_eq!(key(conv::model_of(&b.naive_utc())), key(as_local_utc), "from_local_datetime(l) = l - offset");
                ensure_eq!(b.naive_local(), nu, "from_local_datetime(l).naive_local() == l");
                obs.label("from_local_ok");
            }
            MappedLocalTime::None => {
                ensure!(!representable(as_local_utc), "from_local_datetime refused although l - offset is representable");
                obs.nt("from_local_refused_at_range_end");
            }
            other => return Err(format!("from_local_datetime on a fixed offset = {other:?}")),
        }
        // alternative public routes to the same two conversions
        ensure_eq!(fo.utc_minus_local(), -off, "utc_minus_local");
        #[allow(deprecated)]
        {
            ensure_eq!(DateTime::<FixedOffset>::from_utc(nu, fo), dt, "DateTime::from_utc");
        }
        let add = call("NaiveDateTime::checked_add_offset", || nu.checked_add_offset(fo))?;
        ensure_eq!(add.map(|x| key(conv::model_of(&x))), if cal::in_range_day(w.day) { Some(key(w)) } else { None }, "checked_add_offset({off})");
        let sub = call("NaiveDateTime::checked_sub_offset", || nu.checked_sub_offset(fo))?;
        ensure_eq!(sub.map(|x| key(conv::model_of(&x))), if cal::in_range_day(as_local_utc.day) { Some(key(as_local_utc)) } else { None }, "checked_sub_offset({off})");
        if let Some(a) = add {
            ensure_eq!(call("NaiveDateTime + FixedOffset", || nu + fo)?, a, "NaiveDateTime + FixedOffset");
            #[allow(deprecated)]
            {
                ensure_eq!(call("DateTime::from_local", || DateTime::<FixedOffset>::from_local(a, fo))?, dt, "DateTime::from_local(wall, offset)");
            }
        }
        if let Some(b) = sub {
            ensure_eq!(call("NaiveDateTime - FixedOffset", || nu - fo)?, b, "NaiveDateTime - FixedOffset");
        }
        ensure_eq!(DateTime::<Utc>::from(dt), nu.and_utc(), "From<DateTime<FixedOffset>> for DateTime<Utc>");
        let back = DateTime::<FixedOffset>::from(nu.and_utc());
        ensure_eq!((back.naive_utc(), back.offset().local_minus_utc()), (nu, 0), "From<DateTime<Utc>> for DateTime<FixedOffset>");
        // zone conversion never changes the instant
        let fo2 = FixedOffset::east_opt(off2).ok_or("harness: offset")?;
        let c = call("with_timezone", || dt.with_timezone(&fo2))?;
        ensure_eq!((c.naive_utc(), c.offset().local_minus_utc()), (nu, off2), "with_timezone");
        ensure_eq!(call("to_utc", || dt.to_utc())?.naive_utc(), nu, "to_utc");
        ensure_eq!(call("fixed_offset", || dt.fixed_offset())?, dt, "fixed_offset");
        ensure_eq!(dt.with_timezone(&Utc), nu.and_utc(), "with_timezone(Utc)");
        ensure_eq!(dt.timezone(), fo, "timezone()");
        ensure!(c == dt && h(&c) == h(&dt), "conversion changed equality/hash");
        Ok(())
    }
}

// ---------------------------------------------------------------------------------------------
pub struct Pairs;
impl SubCheck for Pairs {
    type Case = (Ndt, i32, Ndt, i32);
    fn name(&self) -> &'static str {
        "compare_hash"
    }
    fn rule(&self) -> &'static str {
        "case = two (UTC date-time, offset) values; ==, <, cmp and Hash depend on the instant only (also across Utc/FixedOffset); non-trivial = equal instants with different offsets, or instants 1 ns apart, or wall clocks ordered opposite to the instants"
    }
    fn strategy(&self) -> Option<BoxedStrategy<Self::Case>> {
        let close = (utc(), proptest::sample::select(vec![-1i128, 0, 0, 1, 1_000_000_000, -1_000_000_000, 3_600_000_000_000]), gen::offset_secs(), gen::offset_secs()).prop_map(|(a, d, o1, o2)| {
            let t = (crate::refmodel::inst::join(a) + d).clamp(crate::refmodel::inst::min_inst(), crate::refmodel::inst::max_inst());
            (a, o1, crate::refmodel::inst::split(t), o2)
        });
        Some(prop_oneof![3 => close, 1 => (utc(), gen::offset_secs(), utc(), gen::offset_secs())].boxed())
    }
    fn check(&self, &(a, oa, b, ob): &Self::Case, obs: &mut Obs) -> Result<(), String> {
        let ord = key(a).cmp(&key(b));
        let (wa, wb) = (shift(a, oa as i64), shift(b, ob as i64));
        obs.nt_if(ord.is_eq() && oa != ob, "same_instant_different_offset");
        obs.nt_if(!ord.is_eq() && key(wa).cmp(&key(wb)) != ord, "wall_order_differs");
        obs.nt_if(a.day == b.day && a.secs == b.secs && a.frac.abs_diff(b.frac) == 1, "one_ns_apart");
        let (fa, fb) = (FixedOffset::east_opt(oa).ok_or("offset")?, FixedOffset::east_opt(ob).ok_or("offset")?);
        let (x, y) = (fa.from_utc_datetime(&conv::ndt(a)), fb.from_utc_datetime(&conv::ndt(b)));
        ensure_eq!(x == y, ord.is_eq(), "== of instants");
        ensure_eq!(x.cmp(&y), ord, "cmp of instants");
        ensure_eq!(x.partial_cmp(&y), Some(ord), "partial_cmp");
        ensure_eq!(x < y, ord.is_lt(), "<");
        if ord.is_eq() {
            ensure!(h(&x) == h(&y), "equal instants hash differently (offsets {oa}, {ob})");
        }
        let (ux, uy) = (x.to_utc(), y.to_utc());
        ensure_eq!(ux == y, ord.is_eq(), "DateTime<Utc> == DateTime<FixedOffset>");
        ensure_eq!(ux.partial_cmp(&y), Some(ord), "DateTime<Utc> vs DateTime<FixedOffset> order");
        ensure_eq!(ux.cmp(&uy), ord, "DateTime<Utc> order");
        if ord.is_eq() {
            ensure!(h(&ux) == h(&y), "Utc and FixedOffset views of one instant hash differently");
        }
        Ok(())
    }
}

// ---------------------------------------------------------------------------------------------
#[derive(Clone, Debug, Serialize, Deserialize)]
pub struct EditCase {
    pub u: Ndt,
    pub off: i32,
    /// 0 year 1 month 2 month0 3 day 4 day0 5 ordinal 6 ordinal0 7 hour 8 minute 9 second 10 nanosecond
    /// 11 +days 12 -days 13 +months 14 -months 15 with_time
    pub op: u8,
    pub v: i64,
    pub t: T,
}
pub struct Edit;

/// what the operation does to the wall clock: Some(new wall) or None (no such date/time)
fn edit_model(w: Ndt, op: u8, v: i64, t: T) -> Option<Ndt> {
    let (y, m, d) = cal::civil_from_days(w.day);
    let (m, d) = (m as i64, d as i64);
    let date = |y: i64, m: i64, d: i64| if cal::valid_ymd(y, m, d) { Some(cal::days_from_civil(y, m as u32, d as u32)) } else { None };
    let (h, mi, s) = (w.secs / 3600, w.secs / 60 % 60, w.secs % 60);
    let u32ok = |x: i64| x >= 0 && x <= u32::MAX as i64;
    Some(match op {
        0 => Ndt { day: date(v, m, d)?, ..w },
        1 => Ndt { day: date(y, v, d)?, ..w },
        2 => Ndt { day: if u32ok(v + 1) { date(y, v + 1, d)? } else { return None }, ..w },
        3 => Ndt { day: date(y, m, v)?, ..w },
        4 => Ndt { day: if u32ok(v + 1) { date(y, m, v + 1)? } else { return None }, ..w },
        5 => Ndt { day: cal::day_from_yo(y, v)?, ..w },
        6 => Ndt { day: if u32ok(v + 1) { cal::day_from_yo(y, v + 1)? } else { return None }, ..w },
        7 => if v < 24 { Ndt { secs: v as u32 * 3600 + mi * 60 + s, ..w } } else { return None },
        8 => if v < 60 { Ndt { secs: h * 3600 + v as u32 * 60 + s, ..w } } else { return None },
        9 => if v < 60 { Ndt { secs: h * 3600 + mi * 60 + v as u32, ..w } } else { return None },
        10 => if v < 2_000_000_000 { Ndt { frac: v as u32, ..w } } else { return None },
        11 => Ndt { day: w.day.checked_add(i64::try_from(v as u64).ok()?)?, ..w },
        12 => Ndt { day: w.day.checked_sub(i64::try_from(v as u64).ok()?)?, ..w },
        13 | 14 => {
            let n = if op == 13 { v } else { -v };
            let (ny, nm, nd) = cal::add_months(y, m as u32, d as u32, n);
            Ndt { day: cal::days_from_civil(ny, nm, nd), ..w }
        }
        _ => Ndt { day: w.day, secs: t.secs, frac: t.frac },
    })
}

impl SubCheck for Edit {
    type Case = EditCase;
    fn name(&self) -> &'static str {
        "edit_wall_clock"
    }
    fn rule(&self) -> &'static str {
        "case = (UTC date-time, offset, operation, argument): with_year..with_nanosecond (1- and 0-based), checked_add/sub_days, checked_add/sub_months, with_time, all applied to the wall clock and accepted iff the new instant is representable, offset kept; non-trivial = wall date differs from the UTC date, headroom wall clock before or after the edit, result instant within a day of a range end, or no such date/time"
    }
    fn strategy(&self) -> Option<BoxedStrategy<EditCase>> {
        Some(
            (utc(), gen::offset_secs(), 0u8..16, tod())
                .prop_flat_map(|(u, off, op, t)| {
                    let w = shift(u, off as i64);
                    let (wy, _, _) = cal::civil_from_days(w.day);
                    let v: BoxedStrategy<i64> = match op {
                        0 => prop_oneof![2 => Just(wy), 3 => (cal::MIN_YEAR - 3..=cal::MAX_YEAR + 3), 1 => gen::i32_edges().prop_map(|v| v as i64), 2 => (wy - 2..=wy + 2)].boxed(),
                        1 | 2 => gen::u32_edges(vec![11, 12, 13]).prop_map(|v| v as i64).boxed(),
                        3 | 4 => gen::u32_edges(vec![27, 28, 29, 30, 31, 32]).prop_map(|v| v as i64).boxed(),
                        5 | 6 => gen::u32_edges(vec![364, 365, 366, 367]).prop_map(|v| v as i64).boxed(),
                        7 => gen::u32_edges(vec![23, 24]).prop_map(|v| v as i64).boxed(),
                        8 | 9 => gen::u32_edges(vec![59, 60]).prop_map(|v| v as i64).boxed(),
                        10 => gen::u32_edges(vec![999_999_999, 1_000_000_000, 1_999_999_999, 2_000_000_000]).prop_map(|v| v as i64).boxed(),
                        11 | 12 => {
                            let to_end = if op == 11 { cal::max_day() - w.day } else { w.day - cal::min_day() };
                            prop_oneof![3 => 0i64..5, 2 => (-3i64..=3).prop_map(move |e| (to_end + e).max(0)), 1 => 0i64..1000, 1 => any::<u64>().prop_map(|v| v as i64)].boxed()
                        }
                        13 | 14 => {
                            let (y, m, _) = cal::civil_from_days(w.day);
                            let to_end = if op == 13 { (cal::MAX_YEAR - y) * 12 + 12 - m as i64 } else { (y - cal::MIN_YEAR) * 12 + m as i64 - 1 };
                            prop_oneof![3 => 0i64..30, 2 => (-14i64..=14).prop_map(move |e| (to_end + e).clamp(0, u32::MAX as i64)), 1 => any::<u32>().prop_map(|v| v as i64)].boxed()
                        }
                        _ => Just(0i64).boxed(),
                    };
                    (Just(u), Just(off), Just(op), v, Just(t))
                })
                .prop_map(|(u, off, op, v, t)| EditCase { u, off, op, v, t })
                .boxed(),
        )
    }
    fn check(&self, c: &EditCase, obs: &mut Obs) -> Result<(), String> {
        let w = classify(c.u, c.off, obs);
        let fo = FixedOffset::east_opt(c.off).ok_or("harness: offset")?;
        let dt = fo.from_utc_datetime(&conv::ndt(c.u));
        let v = c.v;
        let nw = edit_model(w, c.op, v, c.t);
        // expected: Some(exact) iff the new wall clock exists and its instant is representable
        let new_u = nw.map(|n| shift(n, -(c.off as i64)));
        let exp: Option<Ndt> = match new_u {
            Some(nu) if representable(nu) => Some(nu),
            _ => None,
        };
        obs.nt_if(nw.is_none(), "no_such_wall_clock");
        if let Some(nu) = new_u {
            obs.nt_if((nu.day - cal::max_day()).abs() <= 1 || (nu.day - cal::min_day()).abs() <= 1, "result_at_range_end");
        }
        // unspecified band: the edit would create a *new* wall date outside the nominal date range
        // although the instant stays representable (DESIGN.md C04)
        let band = matches!((nw, exp), (Some(n), Some(_)) if !cal::in_range_day(n.day) && n.day != w.day);
        // years outside the date range are documented to give None for with_year
        obs.label_if(band, "result_date_in_headroom");
        let got: Option<DateTime<FixedOffset>> = match c.op {
            0 => if v >= i32::MIN as i64 && v <= i32::MAX as i64 { call("with_year", || dt.with_year(v as i32))? } else { return Ok(()) },
            1 => call("with_month", || dt.with_month(v as u32))?,
            2 => call("with_month0", || dt.with_month0(v as u32))?,
            3 => call("with_day", || dt.with_day(v as u32))?,
            4 => call("with_day0", || dt.with_day0(v as u32))?,
            5 => call("with_ordinal", || dt.with_ordinal(v as u32))?,
            6 => call("with_ordinal0", || dt.with_ordinal0(v as u32))?,
            7 => call("with_hour", || dt.with_hour(v as u32))?,
            8 => call("with_minute", || dt.with_minute(v as u32))?,
            9 => call("with_second", || dt.with_second(v as u32))?,
            10 => call("with_nanosecond", || dt.with_nanosecond(v as u32))?,
            11 => call("checked_add_days", || dt.checked_add_days(Days::new(v as u64)))?,
            12 => call("checked_sub_days", || dt.checked_sub_days(Days::new(v as u64)))?,
            13 => call("checked_add_months", || dt.checked_add_months(Months::new(v as u32)))?,
            14 => call("checked_sub_months", || dt.checked_sub_months(Months::new(v as u32)))?,
            _ => {
                let time = c.t.build()?;
                match call("with_time", || dt.with_time(time))? {
                    MappedLocalTime::Single(x) => Some(x),
                    MappedLocalTime::None => None,
                    other => return Err(format!("with_time on a fixed offset = {other:?}")),
                }
            }
        };
        let what = format!("op {} arg {} on wall {}T{}{}", c.op, v, rfmt::date(w.day), rfmt::time(w.secs, w.frac), rfmt::offset(c.off));
        // a leap-second reading on the very last second of the supported range compares greater than
        // MAX_UTC but is a constructible value; the tree is not consistent about it (map_local filters
        // it, month stepping does not) and the statement does not speak of it: no-panic only
        if let Some(nu) = new_u {
            if nu.day == cal::max_day() && nu.secs == 86_399 && nu.frac >= 1_000_000_000 {
                obs.label("leap_reading_on_last_second_of_range_not_judged");
                return Ok(());
            }
        }
        match got {
            Some(r) => {
                // never a value beyond MIN_UTC/MAX_UTC
                let ru = r.naive_utc();
                ensure!(ru >= NaiveDateTime::MIN && ru <= NaiveDateTime::MAX && r >= DateTime::<Utc>::MIN_UTC && r <= DateTime::<Utc>::MAX_UTC, "{what}: built a DateTime outside [MIN_UTC, MAX_UTC]: {r:?}");
                let e = exp.ok_or_else(|| format!("{what}: returned {r:?} but the edited wall clock does not exist or its instant is not representable"))?;
                ensure_eq!(key(conv::model_of(&ru)), key(e), "{what}: instant");
                ensure_eq!(r.offset().local_minus_utc(), c.off, "{what}: offset kept");
                check_wall_accessors(&r, nw.unwrap())?;
            }
            None => {
                if exp.is_some() && !band {
                    return Err(format!("{what}: refused although the edited wall clock exists and its instant is representable"));
                }
            }
        }
        // operator forms agree where the checked form succeeds
        if let Some(r) = got {
            match c.op {
                11 => ensure_eq!(call("Add<Days>", || dt + Days::new(v as u64))?, r, "{what}: operator"),
                12 => ensure_eq!(call("Sub<Days>", || dt - Days::new(v as u64))?, r, "{what}: operator"),
                13 => ensure_eq!(call("Add<Months>", || dt + Months::new(v as u32))?, r, "{what}: operator"),
                14 => ensure_eq!(call("Sub<Months>", || dt - Months::new(v as u32))?, r, "{what}: operator"),
                _ => {}
            }
        }
        Ok(())
    }
}

// ---------------------------------------------------------------------------------------------
pub struct Ymd;
impl SubCheck for Ymd {
    type Case = (i32, u32, u32, u32, u32, u32, i32);
    fn name(&self) -> &'static str {
        "with_ymd_and_hms"
    }
    fn rule(&self) -> &'static str {
        "case = (y, m, d, h, mi, s, offset); with_ymd_and_hms is Single with that wall clock iff the fields denote a date and time and the instant is representable, else None; non-trivial = invalid field at limit+1, or year at a range end"
    }
    fn strategy(&self) -> Option<BoxedStrategy<Self::Case>> {
        let y = prop_oneof![3 => -3000i32..3000, 3 => proptest::sample::select(vec![cal::MIN_YEAR as i32 - 1, cal::MIN_YEAR as i32, cal::MAX_YEAR as i32, cal::MAX_YEAR as i32 + 1, i32::MIN, i32::MAX]), 1 => cal::MIN_YEAR as i32..=cal::MAX_YEAR as i32];
        Some((y, 0u32..14, 0u32..33, 0u32..26, 0u32..62, 0u32..62, gen::offset_secs()).boxed())
    }
    fn check(&self, &(y, m, d, hh, mi, s, off): &Self::Case, obs: &mut Obs) -> Result<(), String> {
        let fo = FixedOffset::east_opt(off).ok_or("harness: offset")?;
        let valid = (cal::MIN_YEAR..=cal::MAX_YEAR).contains(&(y as i64)) && cal::valid_ymd(y as i64, m as i64, d as i64) && hh < 24 && mi < 60 && s < 60;
        obs.nt_if(m == 13 || d == cal::days_in_month(y as i64, m) + 1 || hh == 24 || mi == 60 || s == 60, "limit_plus_one");
        obs.nt_if(y as i64 == cal::MIN_YEAR || y as i64 == cal::MAX_YEAR, "year_at_range_end");
        let got = call("with_ymd_and_hms", || fo.with_ymd_and_hms(y, m, d, hh, mi, s))?;
        let exp = if valid {
            let w = Ndt { day: cal::days_from_civil(y as i64, m, d), secs: hh * 3600 + mi * 60 + s, frac: 0 };
            let u = shift(w, -(off as i64));
            if representable(u) { Some((u, w)) } else { obs.nt("instant_unrepresentable"); None }
        } else {
            None
        };
        match (got, exp) {
            (MappedLocalTime::Single(r), Some((u, w))) => {
                ensure_eq!(key(conv::model_of(&r.naive_utc())), key(u), "with_ymd_and_hms instant");
                check_wall_accessors(&r, w)?;
            }
            (MappedLocalTime::None, None) => {}
            (g, e) => return Err(format!("with_ymd_and_hms({y},{m},{d},{hh},{mi},{s}) at offset {off}: got {g:?}, expected {:?}", e.map(|x| x.1))),
        }
        Ok(())
    }
}

pub fn subs() -> Vec<Box<dyn DynSub>> {
    vec![Box::new(Construct), Box::new(Pairs), Box::new(Edit), Box::new(Ymd)]
}

pub fn run(ctx: &Ctx) {
    let n = ctx.n(3_000_000, 150_000_000);
    ctx.run_prop(&Construct, n);
    ctx.run_prop(&Pairs, n);
    ctx.run_prop(&Edit, 2 * n);
    ctx.run_prop(&Ymd, n);
    // offset range: east_opt / west_opt accept exactly (-86400, 86400)
    for s in [-86_401i32, -86_400, -86_399, 86_399, 86_400, 86_401, i32::MIN, i32::MAX] {
        let ok = s > -86_400 && s < 86_400;
        if FixedOffset::east_opt(s).is_some() != ok || (s != i32::MIN && FixedOffset::west_opt(s).is_some() != ok) {
            ctx.push_failure("construct_and_read", &(Ndt { day: 0, secs: 0, frac: 0 }, s, 0), format!("FixedOffset::east_opt/west_opt({s}) acceptance"));
        }
        #[allow(deprecated)]
        if crate::guard::guard(|| FixedOffset::east(s)).is_ok() != ok || (s != i32::MIN && crate::guard::guard(|| FixedOffset::west(s)).is_ok() != ok) {
            ctx.push_failure("construct_and_read", &(Ndt { day: 0, secs: 0, frac: 0 }, s, 0), format!("deprecated FixedOffset::east/west({s}): panics exactly when the _opt form refuses"));
        }
    }
}
