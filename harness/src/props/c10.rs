//! C10 RFC 3339 output is conformant and input acceptance is exact.
use crate::engine::{Ctx, DynSub, Obs, SubCheck};
use crate::gen;
use crate::guard::call;
use crate::props::c04::shift;
use crate::props::c07::T;
use crate::props::c09::text_time;
use crate::refmodel::inst::Ndt;
use crate::refmodel::{cal, rfc3339};
use crate::{conv, ensure, ensure_eq};
use chrono::{DateTime, FixedOffset, SecondsFormat, TimeZone};
use proptest::prelude::*;
use serde::{Deserialize, Serialize};

fn key(n: Ndt) -> (i64, u32, u32) {
    (n.day, n.secs, n.frac)
}

pub fn day_0_9999() -> BoxedStrategy<i64> {
    let lo = cal::days_from_civil(0, 1, 1);
    let hi = cal::days_from_civil(9999, 12, 31);
    prop_oneof![
        4 => lo..=hi,
        2 => (0i64..3).prop_map(move |d| lo + d),
        2 => (0i64..3).prop_map(move |d| hi - d),
        2 => (1900i64..2100, 1u32..=12, 0u32..3).prop_map(|(y, m, k)| cal::days_from_civil(y, m, cal::days_in_month(y, m) - k)),
        1 => (0i64..=9999).prop_map(|y| cal::days_from_civil(y, 2, cal::days_in_month(y, 2))),
    ]
    .boxed()
}

// ---------------------------------------------------------------------------------------------
#[derive(Clone, Debug, Serialize, Deserialize)]
pub struct WCase {
    pub day: i64,
    pub t: T,
    pub off: i32,
    pub secform: u8,
    pub use_z: bool,
}
pub struct Writer;
const FORMS: [SecondsFormat; 5] = [SecondsFormat::Secs, SecondsFormat::Millis, SecondsFormat::Micros, SecondsFormat::Nanos, SecondsFormat::AutoSi];

pub fn expected_3339(day: i64, t: T, off: i32, secform: u8, use_z: bool) -> String {
    let (y, m, d) = cal::civil_from_days(day);
    let (h, mi, mut s) = (t.secs / 3600, t.secs / 60 % 60, t.secs % 60);
    let mut n = t.frac;
    if n >= 1_000_000_000 {
        s += 1;
        n -= 1_000_000_000;
    }
    let frac = match secform {
        0 => String::new(),
        1 => format!(".{:03}", n / 1_000_000),
        2 => format!(".{:06}", n / 1000),
        3 => format!(".{n:09}"),
        _ => if n == 0 { String::new() } else if n % 1_000_000 == 0 { format!(".{:03}", n / 1_000_000) } else if n % 1000 == 0 { format!(".{:06}", n / 1000) } else { format!(".{n:09}") },
    };
    let o = if use_z && off == 0 { "Z".to_string() } else { format!("{}{:02}:{:02}", if off < 0 { '-' } else { '+' }, off.abs() / 3600, off.abs() / 60 % 60) };
    format!("{y:04}-{m:02}-{d:02}T{h:02}:{mi:02}:{s:02}{frac}{o}")
}

impl SubCheck for Writer {
    type Case = WCase;
    fn name(&self) -> &'static str {
        "writer"
    }
    fn rule(&self) -> &'static str {
        "case = (wall date with year 0..=9999, time, whole-minute offset within +/-23:59, precision option, use_z); output equals the reference rendering, is accepted by the independent RFC 3339 recognizer with the same fields (fraction truncated), Z only on request at offset 0, and parses back to the same instant (truncated) and offset; non-trivial = non-zero fraction cut by the precision, leap second, offset 0 with use_z, negative offset, or year at 0000/9999"
    }
    fn strategy(&self) -> Option<BoxedStrategy<WCase>> {
        Some((day_0_9999(), text_time(), prop_oneof![2 => gen::offset_minutes(), 1 => Just(0)], 0u8..5, any::<bool>()).prop_map(|(day, t, off, secform, use_z)| WCase { day, t, off, secform, use_z }).boxed())
    }
    fn check(&self, c: &WCase, obs: &mut Obs) -> Result<(), String> {
        let sub = c.t.frac % 1_000_000_000;
        let keep: u32 = match c.secform { 0 => 1_000_000_000, 1 => 1_000_000, 2 => 1000, _ => 1 };
        obs.nt_if(sub % keep != 0, "fraction_truncated");
        obs.nt_if(c.t.leap(), "leap_second");
        obs.nt_if(c.off == 0 && c.use_z, "zulu");
        obs.nt_if(c.off < 0, "negative_offset");
        let (y, _, _) = cal::civil_from_days(c.day);
        obs.nt_if(y == 0 || y == 9999, "year_edge");
        let fo = FixedOffset::east_opt(c.off).ok_or("harness: offset")?;
        let wall = Ndt { day: c.day, secs: c.t.secs, frac: c.t.frac };
        let n = conv::date(c.day).and_time(c.t.build()?);
        let dt = fo.from_local_datetime(&n).single().ok_or("harness: from_local_datetime")?;
        let s = call("to_rfc3339_opts", || dt.to_rfc3339_opts(FORMS[c.secform as usize], c.use_z))?;
        ensure_eq!(s, expected_3339(c.day, c.t, c.off, c.secform, c.use_z), "to_rfc3339_opts({:?}, {})", FORMS[c.secform as usize], c.use_z);
        if c.secform == 4 && !c.use_z {
            ensure_eq!(call("to_rfc3339", || dt.to_rfc3339())?, s, "to_rfc3339 == AutoSi without Z");
            // the same rendering through the formatting item
            use std::fmt::Write;
            let mut a = String::new();
            let r = call("format_with_items(Fixed::RFC3339)", || write!(a, "{}", dt.format_with_items([chrono::format::Item::Fixed(chrono::format::Fixed::RFC3339)].iter())))?;
            ensure!(r.is_ok() && a == s, "format_with_items([Fixed::RFC3339]) = {a:?} ({r:?}), to_rfc3339 = {s:?}");
        }
        // conformance: the independent recognizer accepts it and reads the same fields
        let p = rfc3339::parse(&s).ok_or_else(|| format!("output {s:?} does not match the RFC 3339 date-time grammar"))?;
        let leap = if c.t.leap() { 1_000_000_000 } else { 0 };
        let trunc = Ndt { frac: sub - sub % keep + leap, ..wall };
        ensure_eq!((key(p.wall), p.off), (key(trunc), c.off), "fields read from {s:?}");
        ensure_eq!(s.ends_with('Z'), c.use_z && c.off == 0, "Z only on request and only for offset zero: {s:?}");
        // parses back to the same instant (to the printed precision) and offset
        let back = call("parse_from_rfc3339", || DateTime::parse_from_rfc3339(&s))?.map_err(|e| format!("parse_from_rfc3339({s:?}) = {e:?}"))?;
        ensure_eq!(key(conv::model_of(&back.naive_utc())), key(shift(trunc, -(c.off as i64))), "round trip instant of {s:?}");
        ensure_eq!(back.offset().local_minus_utc(), c.off, "round trip offset of {s:?}");
        Ok(())
    }
}

// ---------------------------------------------------------------------------------------------
pub struct Reader;

/// structured source of reader strings: numeric fields may be out of range on purpose
#[derive(Clone, Debug)]
struct Fields {
    y: u32, mo: u32, d: u32, h: u32, mi: u32, s: u32,
    frac: Option<String>,
    sep: char,
    /// None = Z/z
    off: Option<(char, u32, u32)>,
    zulu: char,
}
fn render(f: &Fields) -> String {
    let mut s = format!("{:04}-{:02}-{:02}{}{:02}:{:02}:{:02}", f.y, f.mo, f.d, f.sep, f.h, f.mi, f.s);
    if let Some(fr) = &f.frac {
        s.push('.');
        s.push_str(fr);
    }
    match f.off {
        None => s.push(f.zulu),
        Some((sg, oh, om)) => s.push_str(&format!("{sg}{oh:02}:{om:02}")),
    }
    s
}
fn fields() -> BoxedStrategy<Fields> {
    let valid = (day_0_9999(), text_time()).prop_map(|(day, t)| {
        let (y, m, d) = cal::civil_from_days(day);
        (y as u32, m, d, t.secs / 3600, t.secs / 60 % 60, t.secs % 60 + if t.leap() { 1 } else { 0 })
    });
    // field-level perturbation: limit+1 values
    let perturbed = (valid.clone(), 0u8..8).prop_map(|((y, m, d, h, mi, s), k)| match k {
        0 => (y, 13, d, h, mi, s),
        1 => (y, m, cal::days_in_month(y as i64, m) + 1, h, mi, s),
        2 => (y, m, d, 24, 0, 0),
        3 => (y, m, d, h, 60, s),
        4 => (y, m, d, h, mi, 61),
        5 => (y, m, d, h, mi, 60),
        6 => (y, 0, d, h, mi, s),
        _ => (y, m, 0, h, mi, s),
    });
    let frac = prop_oneof![3 => Just(None), 4 => "[0-9]{1,12}".prop_map(Some), 1 => "[0-9]{13,40}".prop_map(Some), 1 => Just(Some(String::new()))];
    let off = prop_oneof![
        2 => Just(None),
        5 => (proptest::sample::select(vec!['+', '-', '\u{2212}']), 0u32..24, 0u32..60).prop_map(Some),
        2 => (proptest::sample::select(vec!['+', '-', '\u{2212}']), proptest::sample::select(vec![(23u32, 59u32), (24, 0), (23, 60), (0, 0), (99, 99), (12, 0)])).prop_map(|(s, (h, m))| Some((s, h, m))),
    ];
    (prop_oneof![4 => valid, 2 => perturbed], frac, proptest::sample::select(vec!['T', 'T', 't', ' ']), off, proptest::sample::select(vec!['Z', 'z']))
        .prop_map(|((y, mo, d, h, mi, s), frac, sep, off, zulu)| Fields { y, mo, d, h, mi, s, frac, sep, off, zulu })
        .boxed()
}
fn mutate(s: String, op: u8, pos: usize, ch: char) -> String {
    let mut cs: Vec<char> = s.chars().collect();
    if cs.is_empty() {
        return s;
    }
    let p = pos % cs.len();
    match op {
        0 => { cs.remove(p); }
        1 => { let c = cs[p]; cs.insert(p, c); }
        2 => { cs[p] = ch; }
        3 => { cs.insert(p, ch); }
        4 => { cs.push(ch); }
        5 => { cs.insert(0, ch); }
        6 => { if cs[p].is_ascii_digit() { cs[p] = char::from_u32(cs[p] as u32 - '0' as u32 + 0xFF10).unwrap(); } } // full-width digit
        7 => { if let Some(i) = cs.iter().position(|&c| c == ':') { cs.remove(i); } }
        8 => { if let Some(i) = cs.iter().rposition(|&c| c == ':') { cs.insert(i, ':'); } }
        9 => { cs.truncate(p); }
        10 => { if let Some(i) = cs.iter().rposition(|&c| c == '+' || c == '-' || c == '\u{2212}') { cs[i] = ['+', '-', '\u{2212}', '\u{2013}', '\u{FF0B}', ' '][pos % 6]; } }
        _ => { let q = (p + 1) % cs.len(); cs.swap(p, q); }
    }
    cs.into_iter().collect()
}

impl SubCheck for Reader {
    type Case = String;
    fn name(&self) -> &'static str {
        "reader"
    }
    fn rule(&self) -> &'static str {
        "case = a string; parse_from_rfc3339 accepts it exactly when the independent recognizer does, and then returns exactly the denoted value; non-trivial = accepted string using a latitude (t/space, z, U+2212, fraction of other than 3/6/9 digits, -00:00) or a boundary field value, or a rejected string derived from an accepted one by one edit or one out-of-range field"
    }
    fn strategy(&self) -> Option<BoxedStrategy<String>> {
        let g = fields().prop_map(|f| render(&f));
        let m = (fields().prop_map(|f| render(&f)), 0u8..12, any::<usize>(), prop_oneof![3 => any::<char>(), 3 => proptest::sample::select(vec!['0', '9', ':', '-', '+', 'T', 'Z', ' ', '.', '\u{2212}', '\t', '\n', 'z', 'U'])]).prop_map(|(s, op, pos, ch)| mutate(s, op, pos, ch));
        Some(
            prop_oneof![
                5 => g,
                5 => m,
                // fraction digits that repeat the date, the ordinal date or the clock time of the same string
                1 => (0i64..=9999, 1u32..=12, 1u32..=28, 0u32..24, 0u32..60, 0u32..60, 0u8..4, "[0-9]{0,3}", proptest::sample::select(vec!["Z", "+00:00", "-08:00", "+05:30"])).prop_map(|(y, m, d, h, mi, s, k, tail, off)| {
                    let ord = cal::ordinal(cal::days_from_civil(y, m, d));
                    let frac = match k { 0 => format!("{y:04}{m:02}{d:02}"), 1 => format!("{y:04}{ord:03}"), 2 => format!("{h:02}{mi:02}{s:02}"), _ => format!("{m:02}{d:02}{h:02}") };
                    format!("{y:04}-{m:02}-{d:02}T{h:02}:{mi:02}:{s:02}.{frac}{tail}{off}")
                }),
                1 => ".{0,40}",
                2 => "[0-9]{4}-[01][0-9]-[0-3][0-9][Tt ][0-2][0-9]:[0-6][0-9]:[0-6][0-9](\\.[0-9]{0,12})?(Z|z|[+\\-−][0-2][0-9]:[0-6][0-9])",
                1 => "[0-9]{1,5}-[0-9]{1,3}-[0-9]{1,3}[Tt ]?[0-9]{1,3}:[0-9]{1,3}(:[0-9]{1,3})?(Z|[+-][0-9]{1,4}:?[0-9]{0,2})?",
            ]
            .boxed(),
        )
    }
    fn check(&self, s: &String, obs: &mut Obs) -> Result<(), String> {
        let exp = rfc3339::parse(s);
        let got = call("parse_from_rfc3339", || DateTime::parse_from_rfc3339(s))?;
        match exp {
            Some(p) => {
                obs.label("accepted");
                let b = s.as_bytes();
                obs.nt_if(b.get(10) != Some(&b'T'), "separator_latitude");
                obs.nt_if(s.ends_with('z'), "lowercase_z");
                obs.nt_if(s.contains('\u{2212}'), "unicode_minus");
                if let Some(i) = s.find('.') {
                    let n = s[i + 1..].bytes().take_while(|c| c.is_ascii_digit()).count();
                    obs.nt_if(!matches!(n, 3 | 6 | 9), "fraction_digit_count");
                    obs.label_if(n > 9, "fraction_beyond_9_digits");
                }
                obs.nt_if(p.wall.frac >= 1_000_000_000, "second_60");
                obs.nt_if(p.off.abs() == 86_340 || (p.off == 0 && !s.ends_with(['Z', 'z'])), "offset_boundary");
                let dt = got.map_err(|e| format!("parse_from_rfc3339({s:?}) = Err({e:?}) but the string matches the grammar and denotes {p:?}"))?;
                let eu = shift(p.wall, -(p.off as i64));
                ensure_eq!((key(conv::model_of(&dt.naive_utc())), dt.offset().local_minus_utc()), (key(eu), p.off), "value of {s:?}");
            }
            None => {
                obs.label("rejected");
                obs.nt_if(s.len() >= 15 && s.as_bytes()[..4].iter().all(|c| c.is_ascii_digit()), "near_miss");
                if let Ok(dt) = got {
                    return Err(format!("parse_from_rfc3339({s:?}) = Ok({dt:?}) but the string is not a valid RFC 3339 date-time"));
                }
            }
        }
        Ok(())
    }
}

pub fn subs() -> Vec<Box<dyn DynSub>> {
    vec![Box::new(Writer), Box::new(Reader)]
}

/// literals taken from the repository's own tests and documentation
pub const SEEDS: &[&str] = &[
    "2015-01-20T17:35:20-08:00", "2015-01-20T17:35:20.001-08:00", "2015-01-20T17:35:20−08:00", "1996-12-19T16:39:57-08:00",
    "1996-12-19T16:39:57Z", "1996-12-19 16:39:57-08:00", "1996-12-19T16:39:57 -08:00", "2014-07-24T12:34:06Z", "2014-07-24T12:34:06.000+00:00",
    "1990-12-31T23:59:60Z", "1990-12-31T15:59:60-08:00", "1937-01-01T12:00:27.87+00:20", "2015-01-20T17:35:20-0800", "2015-01-20T17:35:20-08",
    "2015-02-18T23:16:09.153Z", "2015-02-30T17:35:20-08:00", "2015-01-20T25:35:20-08:00", "2015-01-20T17:65:20-08:00", "2015-01-20T17:35:90-08:00",
    "2015-01-20T17:35:20-24:00", "15-01-20T17:35:20-08:00", "2015-01-20T17:35:20.000031250204-08:00", "2015-01-20t17:35:20.001z", "2015-01-20T",
    "0000-01-01T00:00:00Z", "9999-12-31T23:59:59.999999999+23:59", "0000-01-01T00:00:00-23:59", "2015-01-20T17:35:20.Z", "2015-01-20T17:35:20+08:", "2015-01-20T17:35:20+08:0",
];

pub fn run(ctx: &Ctx) {
    ctx.run_cases(&Reader, SEEDS.iter().map(|s| s.to_string()).collect());
    let n = ctx.n(3_000_000, 100_000_000);
    ctx.run_prop(&Writer, n);
    ctx.run_prop(&Reader, 3 * n);
}
