//! C11 RFC 2822 output round-trips and obsolete forms are read as specified.
use crate::engine::{Ctx, DynSub, Obs, SubCheck};
use crate::gen;
use crate::guard::{call, expect_panic};
use crate::props::c04::shift;
use crate::props::c07::T;
use crate::props::c10::day_0_9999;
use crate::refmodel::inst::Ndt;
use crate::refmodel::{cal, rfc2822};
use crate::{conv, ensure, ensure_eq};
use chrono::format::{Fixed, Item, Parsed};
use chrono::{DateTime, FixedOffset, TimeZone};
use proptest::prelude::*;
use serde::{Deserialize, Serialize};

const MON: [&str; 12] = ["Jan", "Feb", "Mar", "Apr", "May", "Jun", "Jul", "Aug", "Sep", "Oct", "Nov", "Dec"];
const DAY: [&str; 7] = ["Mon", "Tue", "Wed", "Thu", "Fri", "Sat", "Sun"];
const WS: [char; 25] = [' ', ' ', ' ', '\t', '\n', '\u{b}', '\u{c}', '\r', '\u{85}', '\u{a0}', '\u{1680}', '\u{2000}', '\u{2001}', '\u{2002}', '\u{2003}', '\u{2004}', '\u{2005}', '\u{2006}', '\u{2009}', '\u{200a}', '\u{2028}', '\u{2029}', '\u{202f}', '\u{205f}', '\u{3000}'];

fn key(n: Ndt) -> (i64, u32, u32) {
    (n.day, n.secs, n.frac)
}
fn value_of(dt: &DateTime<FixedOffset>) -> ((i64, u32, u32), i32) {
    (key(conv::model_of(&dt.naive_utc())), dt.offset().local_minus_utc())
}

fn whole_sec_time() -> BoxedStrategy<T> {
    (prop_oneof![3 => 0u32..86_400, 2 => (0u32..1440).prop_map(|m| m * 60 + 59), 1 => proptest::sample::select(vec![0u32, 86_399, 43_200])], prop::bool::weighted(0.3))
        .prop_map(|(secs, leap)| T { secs, frac: if leap && secs % 60 == 59 { 1_000_000_000 } else { 0 } })
        .boxed()
}

// ---------------------------------------------------------------------------------------------
pub struct Writer;
impl SubCheck for Writer {
    type Case = (i64, T, u32, i32);
    fn name(&self) -> &'static str {
        "writer"
    }
    fn rule(&self) -> &'static str {
        "case = (wall date with year 0..=9999, time, sub-second nanos, whole-minute offset); to_rfc2822 = `Www, D Mon YYYY HH:MM:SS +HHMM` with R-cal's weekday and parses back to the same whole-second instant (second 60 preserved) and offset; non-trivial = day < 10, year < 1000, leap second, negative offset, sub-second part dropped"
    }
    fn strategy(&self) -> Option<BoxedStrategy<Self::Case>> {
        Some((day_0_9999(), whole_sec_time(), prop_oneof![1 => Just(0u32), 1 => 0u32..1_000_000_000], gen::offset_minutes()).boxed())
    }
    fn check(&self, &(day, t, sub, off): &Self::Case, obs: &mut Obs) -> Result<(), String> {
        let (y, m, d) = cal::civil_from_days(day);
        obs.nt_if(d < 10, "single_digit_day");
        obs.nt_if(y < 1000, "year_below_1000");
        obs.nt_if(t.leap(), "leap_second");
        obs.nt_if(off < 0, "negative_offset");
        obs.nt_if(sub != 0, "subsecond_dropped");
        let fo = FixedOffset::east_opt(off).ok_or("harness: offset")?;
        let tt = T { secs: t.secs, frac: t.frac + sub };
        let n = conv::date(day).and_time(tt.build()?);
        let dt = fo.from_local_datetime(&n).single().ok_or("harness: from_local_datetime")?;
        let s = call("to_rfc2822", || dt.to_rfc2822())?;
        let sec = t.secs % 60 + if t.leap() { 1 } else { 0 };
        let exp = format!("{}, {} {} {:04} {:02}:{:02}:{:02} {}{:02}{:02}", DAY[cal::weekday(day) as usize], d, MON[(m - 1) as usize], y, t.secs / 3600, t.secs / 60 % 60, sec, if off < 0 { '-' } else { '+' }, off.abs() / 3600, off.abs() / 60 % 60);
        ensure_eq!(s, exp, "to_rfc2822");
        {
            // the same rendering through the formatting item
            use std::fmt::Write;
            let mut a = String::new();
            let r = call("format_with_items(Fixed::RFC2822)", || write!(a, "{}", dt.format_with_items([Item::Fixed(Fixed::RFC2822)].iter())))?;
            ensure!(r.is_ok() && a == s, "format_with_items([Fixed::RFC2822]) = {a:?} ({r:?}), to_rfc2822 = {s:?}");
        }
        let back = call("parse_from_rfc2822", || DateTime::parse_from_rfc2822(&s))?.map_err(|e| format!("parse_from_rfc2822({s:?}) = {e:?}"))?;
        let wall = Ndt { day, secs: t.secs, frac: t.frac };
        ensure_eq!(value_of(&back), (key(shift(wall, -(off as i64))), off), "round trip of {s:?}");
        ensure_eq!(rfc2822::parse(&s).map(|p| (key(p.wall), p.off)), Some((key(wall), off)), "reference reading of {s:?}");
        Ok(())
    }
}

// ---------------------------------------------------------------------------------------------
/// a string built from the documented grammar, with the value it denotes
#[derive(Clone, Debug, Serialize, Deserialize)]
pub struct GCase {
    pub text: String,
    pub wall: Ndt,
    pub off: i32,
    /// text with the weekday replaced by a contradicting one (if a weekday is present)
    pub wrong_weekday: Option<String>,
}
fn ws_run() -> BoxedStrategy<String> {
    prop_oneof![
        5 => Just(" ".to_string()),
        3 => proptest::collection::vec(proptest::sample::select(WS.to_vec()), 1..4).prop_map(|v| v.into_iter().collect()),
    ]
    .boxed()
}
fn casing(s: &str, mask: u8) -> String {
    s.chars().enumerate().map(|(i, c)| if mask >> (i % 8) & 1 == 1 { c.to_ascii_uppercase() } else { c.to_ascii_lowercase() }).collect()
}
fn comment() -> BoxedStrategy<String> {
    let atom = prop_oneof![3 => "[a-zA-Z0-9 ,.:+\\-]{0,6}", 1 => Just("\\(".to_string()), 1 => Just("\\)".to_string()), 1 => Just("\\\\".to_string()), 1 => Just("é☃".to_string()),
        // a backslash quotes any character whatever
        2 => prop_oneof![2 => any::<char>(), 1 => proptest::sample::select(vec!['é', '中', '\u{a0}', '\u{3000}', '😽', 'x', '\t'])].prop_map(|c| format!("\\{c}"))];
    let flat = proptest::collection::vec(atom, 0..4).prop_map(|v| format!("({})", v.concat()));
    let f2 = flat.clone();
    // comments nest to any depth
    let deep = (proptest::sample::select(vec![3usize, 17, 100, 254, 255, 256, 257, 300, 1000]), "[a-z]{0,3}").prop_map(|(n, w)| format!("{}{w}{}", "(".repeat(n), ")".repeat(n)));
    prop_oneof![6 => flat.clone(), 2 => (f2, flat).prop_map(|(a, b)| format!("(x{a}y{b})")), 1 => deep].boxed()
}
#[derive(Clone, Debug)]
struct Shape {
    weekday: bool,
    wmask: u8,
    day2: bool,
    mmask: u8,
    ystyle: u8, // 0: 2 digits, 1: 3 digits, 2: 4 digits, 3: 5+ digits (zero padded)
    seconds: bool,
    zone: u8, // 0 numeric, 1 named, 2 military
    zsel: u8,
    ws: [String; 5],
    comments: Vec<(String, String)>,
}
fn grammar_case() -> BoxedStrategy<GCase> {
    let shape = (
        (any::<bool>(), any::<u8>(), any::<bool>(), any::<u8>(), 0u8..4, prop::bool::weighted(0.8), 0u8..3, any::<u8>()),
        // after the comma of the weekday the white space is optional (RFC 2822: day = [FWS] 1*2DIGIT)
        [prop_oneof![1 => Just(String::new()), 4 => ws_run()].boxed(), ws_run(), ws_run(), ws_run(), ws_run()],
        proptest::collection::vec((prop_oneof![2 => Just(String::new()), 1 => ws_run()], comment()), 0..3),
    )
        .prop_map(|((weekday, wmask, day2, mmask, ystyle, seconds, zone, zsel), ws, comments)| Shape { weekday, wmask, day2, mmask, ystyle, seconds, zone, zsel, ws, comments });
    (day_0_9999(), 0i64..100_000, whole_sec_time(), gen::offset_minutes(), shape)
        .prop_map(|(day0, bigyear, t, off_num, sh)| {
            // pick the year to fit the year style
            let (_, m, d0) = cal::civil_from_days(day0);
            let (y0, _, _) = cal::civil_from_days(day0);
            let y = match sh.ystyle {
                0 => 1950 + y0 % 100,          // 1950..=2049 -> two digits
                1 => 1900 + y0 % 1000,         // 1900..=2899 -> three digits (year - 1900)
                2 => y0,                       // 0000..=9999
                _ => 10_000 + bigyear % 90_000, // five digits
            };
            let d = d0.min(cal::days_in_month(y, m));
            let day = cal::days_from_civil(y, m, d);
            let t = if sh.seconds { t } else { T { secs: t.secs - t.secs % 60, frac: 0 } };
            let (zone_txt, off) = match sh.zone {
                0 => (format!("{}{:02}{:02}", if off_num < 0 || (off_num == 0 && sh.zsel & 1 == 1) { '-' } else { '+' }, off_num.abs() / 3600, off_num.abs() / 60 % 60), off_num),
                1 => {
                    let names = [("UT", 0), ("GMT", 0), ("EST", -5), ("EDT", -4), ("CST", -6), ("CDT", -5), ("MST", -7), ("MDT", -6), ("PST", -8), ("PDT", -7)];
                    let (n, h) = names[sh.zsel as usize % names.len()];
                    (casing(n, sh.wmask), h * 3600)
                }
                _ => {
                    let letters = b"ABCDEFGHIKLMNOPQRSTUVWXY";
                    let c = letters[sh.zsel as usize % letters.len()] as char;
                    ((if sh.wmask & 1 == 1 { c.to_ascii_lowercase() } else { c }).to_string(), 0)
                }
            };
            // four or more digits: any number of leading zeros
            let pad = [0usize, 0, 0, 0, 1, 2, 3, 5, 8][(bigyear % 9) as usize];
            let ytxt = match sh.ystyle { 0 => format!("{:02}", y % 100), 1 => format!("{:03}", y - 1900), 2 => format!("{}{y:04}", "0".repeat(pad)), _ => format!("{}{y}", "0".repeat(pad)) };
            let dtxt = if sh.day2 { format!("{d:02}") } else { format!("{d}") };
            let sec = t.secs % 60 + if t.leap() { 1 } else { 0 };
            let time = if sh.seconds { format!("{:02}:{:02}:{:02}", t.secs / 3600, t.secs / 60 % 60, sec) } else { format!("{:02}:{:02}", t.secs / 3600, t.secs / 60 % 60) };
            let tail: String = sh.comments.iter().map(|(w, c)| format!("{w}{c}")).collect();
            let body = format!("{dtxt}{}{}{}{ytxt}{}{time}{}{zone_txt}{tail}", sh.ws[1], casing(MON[(m - 1) as usize], sh.mmask), sh.ws[2], sh.ws[3], sh.ws[4]);
            let wd = cal::weekday(day) as usize;
            let (text, wrong) = if sh.weekday {
                (format!("{},{}{body}", casing(DAY[wd], sh.wmask), sh.ws[0]), Some(format!("{},{}{body}", casing(DAY[(wd + 1 + sh.zsel as usize % 6) % 7], sh.wmask), sh.ws[0])))
            } else {
                (body, None)
            };
            GCase { text, wall: Ndt { day, secs: t.secs, frac: t.frac }, off, wrong_weekday: wrong }
        })
        .boxed()
}

pub struct Grammar;
impl SubCheck for Grammar {
    type Case = GCase;
    fn name(&self) -> &'static str {
        "grammar"
    }
    fn rule(&self) -> &'static str {
        "case = a string generated from the documented RFC 2822 grammar (optional weekday, 1-2 digit day, names in any case, 2/3/4/5-digit years, optional seconds, second 60, numeric/named/military zones, -0000, nested and escaped comments, runs of Unicode white space at the five places where the standard form has a space) with the value it denotes; must be accepted with exactly that value, by parse_from_rfc2822 and by the Fixed::RFC2822 item; the same string with a contradicting weekday must be rejected; non-trivial = any optional part that differs from the canonical form"
    }
    fn strategy(&self) -> Option<BoxedStrategy<GCase>> {
        Some(grammar_case())
    }
    fn check(&self, c: &GCase, obs: &mut Obs) -> Result<(), String> {
        let s = &c.text;
        obs.nt_if(!s.as_bytes().first().map(|b| b.is_ascii_alphabetic()).unwrap_or(false), "no_weekday");
        obs.nt_if(s.contains('('), "comment");
        obs.nt_if(s.chars().any(|ch| ch.is_whitespace() && ch != ' '), "unicode_whitespace");
        obs.nt_if(c.wall.frac >= 1_000_000_000, "second_60");
        obs.nt_if(s.matches(':').count() < 2 || (s.contains('(') && s[..s.find('(').unwrap()].matches(':').count() < 2), "no_seconds");
        let (y, _, _) = cal::civil_from_days(c.wall.day);
        obs.label_if(y >= 10_000, "five_digit_year");
        obs.nt_if(!s.contains('+') && !s.contains('-'), "named_or_military_zone");
        // the reference reading agrees with the value the generator intended (oracle self-check)
        let r = rfc2822::parse(s).ok_or_else(|| format!("harness: reference parser rejects generated {s:?}"))?;
        ensure_eq!((key(r.wall), r.off), (key(c.wall), c.off), "harness: reference reading of {s:?}");
        let exp = (key(shift(c.wall, -(c.off as i64))), c.off);
        let got = call("parse_from_rfc2822", || DateTime::parse_from_rfc2822(s))?.map_err(|e| format!("parse_from_rfc2822({s:?}) = Err({e:?}); the string is in the documented grammar and denotes {:?} {}", c.wall, c.off))?;
        ensure_eq!(value_of(&got), exp, "value of {s:?}");
        // the same reader as a format item
        let mut p = Parsed::new();
        call("format::parse RFC2822 item", || chrono::format::parse(&mut p, s, [Item::Fixed(Fixed::RFC2822)].iter()))?.map_err(|e| format!("Fixed::RFC2822 item on {s:?} = {e:?}"))?;
        let via = call("to_datetime", || p.to_datetime())?.map_err(|e| format!("to_datetime after Fixed::RFC2822 on {s:?} = {e:?}"))?;
        ensure_eq!(value_of(&via), exp, "Fixed::RFC2822 value of {s:?}");
        if let Some(w) = &c.wrong_weekday {
            obs.nt("weekday_contradiction_checked");
            if let Ok(v) = call("parse_from_rfc2822", || DateTime::parse_from_rfc2822(w))? {
                return Err(format!("parse_from_rfc2822({w:?}) = Ok({v:?}) although the weekday contradicts the date"));
            }
        }
        Ok(())
    }
}

// ---------------------------------------------------------------------------------------------
pub struct Mutated;
impl SubCheck for Mutated {
    type Case = String;
    fn name(&self) -> &'static str {
        "mutated_and_arbitrary"
    }
    fn rule(&self) -> &'static str {
        "case = a mutated grammar string or arbitrary text; the statement claims nothing about rejection here, so: no panic, and if both the implementation and the reference reader accept, the values agree; non-trivial = accepted by the implementation"
    }
    fn strategy(&self) -> Option<BoxedStrategy<String>> {
        let m = (grammar_case(), 0u8..8, any::<usize>(), prop_oneof![2 => any::<char>(), 3 => proptest::sample::select(vec!['0', '9', ':', '-', '+', ' ', '(', ')', '\\', ',', 'Z', 'J', '\u{3000}', '\t'])]).prop_map(|(g, op, pos, ch)| {
            let mut cs: Vec<char> = g.text.chars().collect();
            let p = pos % cs.len().max(1);
            match op {
                0 => { cs.remove(p); }
                1 => { cs.insert(p, ch); }
                2 => { cs[p] = ch; }
                3 => { cs.push(ch); }
                4 => { cs.insert(0, ch); }
                5 => { cs.truncate(p); }
                6 => { let c = cs[p]; cs.insert(p, c); }
                _ => { let q = (p + 1) % cs.len(); cs.swap(p, q); }
            }
            cs.into_iter().collect::<String>()
        });
        Some(prop_oneof![5 => m, 1 => ".{0,50}", 2 => "([A-Za-z]{3}, ?)?[0-9]{1,3} [A-Za-z]{3} [0-9]{1,6} [0-9]{1,2}:[0-9]{1,2}(:[0-9]{1,2})? ([+-][0-9]{2,5}|[A-Za-z]{1,4})( ?\\([^()]{0,5}\\))?"].boxed())
    }
    fn check(&self, s: &String, obs: &mut Obs) -> Result<(), String> {
        let got = call("parse_from_rfc2822", || DateTime::parse_from_rfc2822(s))?;
        let mut p = Parsed::new();
        let _ = call("format::parse RFC2822 item", || chrono::format::parse(&mut p, s, [Item::Fixed(Fixed::RFC2822)].iter()))?;
        if let Ok(dt) = got {
            obs.nt("accepted");
            if let Some(r) = rfc2822::parse(s) {
                obs.label("both_accept");
                ensure_eq!(value_of(&dt), (key(shift(r.wall, -(r.off as i64))), r.off), "value of accepted {s:?}");
            } else {
                obs.label("accepted_outside_reference_grammar");
            }
        }
        Ok(())
    }
}

pub fn subs() -> Vec<Box<dyn DynSub>> {
    vec![Box::new(Writer), Box::new(Grammar), Box::new(Mutated)]
}

pub const SEEDS: &[&str] = &[
    "Tue, 20 Jan 2015 17:35:20 -0800", "Fri, 2 Jan 2015 17:35:20 -0800", "Fri, 02 Jan 2015 17:35:20 -0800", "Tue, 20 Jan 2015 17:35:20 -0800 (UTC)",
    "20 Jan 2015 17:35:20 -0800", "20 JAN 2015 17:35:20 -0800", "Tue, 20 Jan 2015 17:35 -0800", "Tue, 20 Jan 2015 17:35:20 -0000", "Tue, 20 Jan 2015 17:35:20 GMT",
    "Tue, 20 Jan 2015 17:35:20 EDT", "Tue, 20 Jan 2015 17:35:20 +0000 ()", "Tue, 20 Jan 2015 17:35:20 +0000 (MSK) (+03)", "Tue, 20 Jan 2015 17:35:20 +0000 (( )(( )) \\( \\))",
    "Wed, 18 Feb 2015 23:16:09 +0000", "Sat, 30 Jun 2012 23:59:60 +0000", "Thu, 31 Dec 1999 23:59:59 -0000", "6 Jun 1944 04:00:00Z", "Tue, 20 Jan 2015 17:35:20 HAS",
    "Mon, 10 Jun 116 03:07:52 +0000", "Mon, 10 Jun 16 03:07:52 +0000", "Tue, 20 Jan 2015 17:35:20 k", "Tue, 20 Jan 2015 17:35:20 J", "Tue, 20 Jan 2015😈17:35:20 -0800",
];

pub fn run(ctx: &Ctx) {
    ctx.run_cases(&Mutated, SEEDS.iter().map(|s| s.to_string()).collect());
    let n = ctx.n(3_000_000, 100_000_000);
    ctx.run_prop(&Writer, n);
    ctx.run_prop(&Grammar, n);
    ctx.run_prop(&Mutated, n);
    // documented panic: years outside 0..=9999
    let far = FixedOffset::east_opt(0).unwrap().from_utc_datetime(&conv::date(cal::days_from_civil(10_000, 1, 1)).and_time(chrono::NaiveTime::MIN));
    if let Err(m) = expect_panic("to_rfc2822 outside 0..=9999 (documented)", || far.to_rfc2822()) {
        ctx.push_failure("writer", &(0i64, T { secs: 0, frac: 0 }, 0u32, 0i32), m);
    }
    let _ = ensure_dummy();
}
fn ensure_dummy() -> Result<(), String> {
    ensure!(true, "");
    Ok(())
}
