use chrono_verif::engine::{Ctx, Tier};
use chrono_verif::{known, props, refmodel};
use serde_json::{json, Value};
use std::collections::hash_map::DefaultHasher;
use std::hash::{Hash, Hasher};
use std::path::{Path, PathBuf};

fn usage() -> ! {
    eprintln!("usage: pbt run <ID> [--tier quick|thorough] [--seed N] [--root /verif]\n       pbt replay <file> [--root /verif]\n       pbt list");
    std::process::exit(2)
}

fn arg(args: &[String], name: &str) -> Option<String> {
    args.iter().position(|a| a == name).and_then(|i| args.get(i + 1).cloned())
}

fn main() {
    let args: Vec<String> = std::env::args().skip(1).collect();
    if args.is_empty() {
        usage();
    }
    chrono_verif::guard::install_hook();
    let root = PathBuf::from(arg(&args, "--root").unwrap_or_else(|| "/verif".into()));
    known::load(root.join("known_findings.json").to_str().unwrap());
    match args[0].as_str() {
        "list" => {
            for p in props::registry() {
                println!("{}", p.id);
            }
        }
        "run" => {
            let id = args.get(1).cloned().unwrap_or_else(|| usage());
            let tier = match arg(&args, "--tier").or_else(|| std::env::var("VERIF_TIER").ok()).as_deref() {
                Some("thorough") => Tier::Thorough,
                _ => Tier::Quick,
            };
            let seed: u64 = arg(&args, "--seed")
                .or_else(|| std::env::var("VERIF_SEED").ok())
                .and_then(|s| s.trim().parse::<i64>().ok())
                .map(|v| v as u64)
                .unwrap_or(0);
            std::process::exit(run(&root, &id, tier, seed));
        }
        "replay" => {
            let f = args.get(1).cloned().unwrap_or_else(|| usage());
            std::process::exit(replay(Path::new(&f), true));
        }
        other => {
            // property-specific helper sub-commands (child processes)
            if let Some(code) = props::helper(other, &args[1..]) {
                std::process::exit(code);
            }
            usage()
        }
    }
}

fn replay_value(v: &Value) -> Result<(), String> {
    let pid = v["property"].as_str().ok_or("replay: no property")?;
    let sub = v["subcheck"].as_str().ok_or("replay: no subcheck")?;
    let reg = props::registry();
    let p = reg.iter().find(|p| p.id == pid).ok_or_else(|| format!("replay: unknown property {pid}"))?;
    let subs = (p.subs)();
    let s = subs.iter().find(|s| s.name() == sub).ok_or_else(|| format!("replay: unknown sub-check {sub}"))?;
    s.replay(&v["case"])
}

fn replay(path: &Path, verbose: bool) -> i32 {
    known::set_strict(true);
    let txt = match std::fs::read_to_string(path) {
        Ok(t) => t,
        Err(e) => {
            eprintln!("cannot read {}: {e}", path.display());
            return 2;
        }
    };
    let v: Value = match serde_json::from_str(&txt) {
        Ok(v) => v,
        Err(e) => {
            eprintln!("bad replay file: {e}");
            return 2;
        }
    };
    match replay_value(&v) {
        Ok(()) => {
            if verbose {
                println!("replay {}: property holds on this case", path.display());
            }
            0
        }
        Err(m) => {
            println!("replay {}: {}", path.display(), m);
            println!("VIOLATION property={} replay={}", v["property"].as_str().unwrap_or("?"), path.display());
            1
        }
    }
}

fn run(root: &Path, id: &str, tier: Tier, seed: u64) -> i32 {
    refmodel::cal::self_check();
    let reg = props::registry();
    let p = match reg.iter().find(|p| p.id == id) {
        Some(p) => p,
        None => {
            eprintln!("unknown property {id}");
            return 2;
        }
    };
    let ctx = Ctx::new(p.id, tier, seed);
    let mut violations: Vec<String> = vec![];

    // 1. committed regression replays (bypass the library), strict oracle
    let rdir = root.join("replays").join(id);
    let mut replayed = 0u64;
    if let Ok(rd) = std::fs::read_dir(&rdir) {
        let mut files: Vec<PathBuf> = rd.filter_map(|e| e.ok().map(|e| e.path())).filter(|p| p.extension().map(|e| e == "json").unwrap_or(false)).collect();
        files.sort();
        for f in files {
            replayed += 1;
            let v: Value = match std::fs::read_to_string(&f).ok().and_then(|t| serde_json::from_str(&t).ok()) {
                Some(v) => v,
                None => {
                    eprintln!("unreadable replay {}", f.display());
                    return 2;
                }
            };
            // regression replays honour active known findings (they must be quiet on the
            // unchanged tree); `pbt replay` is the strict form.
            if let Err(m) = replay_value(&v) {
                println!("regression replay {} failed: {}", f.display(), m);
                violations.push(f.display().to_string());
            }
        }
    }

    // 2. generated / enumerated sub-checks
    (p.run)(&ctx);

    // 3. failures -> replay files
    let fdir = root.join("failures").join(id);
    for f in ctx.failures.lock().unwrap().iter() {
        let _ = std::fs::create_dir_all(&fdir);
        let body = json!({"property": f.property, "subcheck": f.subcheck, "case": f.case, "message": f.message,
                          "tier": tier.name(), "seed": seed});
        let mut h = DefaultHasher::new();
        body["case"].to_string().hash(&mut h);
        f.subcheck.hash(&mut h);
        let path = fdir.join(format!("{}-{:016x}.json", f.subcheck, h.finish()));
        let _ = std::fs::write(&path, serde_json::to_string_pretty(&body).unwrap());
        println!("FAIL {} / {}: {}", f.property, f.subcheck, f.message);
        println!("  case: {}", f.case);
        violations.push(path.display().to_string());
    }

    // 4. evidence
    let subs = ctx.subs.lock().unwrap();
    let mut evals = 0u64;
    let mut dn = 0u64;
    let mut samples: Vec<Value> = vec![];
    let mut rules: Vec<String> = vec![];
    let mut detail = serde_json::Map::new();
    let mut exhaustive_all = !subs.is_empty();
    let mut any_exh = false;
    let mut excluded_total = serde_json::Map::new();
    for (name, st) in subs.iter() {
        evals += st.evaluations;
        dn += st.distinct_nontrivial;
        exhaustive_all &= st.exhaustive;
        any_exh |= st.exhaustive;
        rules.push(format!("[{}] {}", name, st.rule));
        for s in st.samples.iter().take(3) {
            samples.push(json!({"subcheck": name, "case": s}));
        }
        for (k, v) in &st.excluded_known {
            let e = excluded_total.entry(k.clone()).or_insert(json!(0));
            *e = json!(e.as_u64().unwrap_or(0) + v);
        }
        detail.insert(
            name.clone(),
            json!({
                "evaluations": st.evaluations, "nontrivial": st.nontrivial,
                "distinct_nontrivial": st.distinct_nontrivial,
                "distinct_count_capped": st.distinct_capped,
                "labels": st.labels, "excluded_known": st.excluded_known,
                "exhaustive": st.exhaustive, "wall_s": (st.wall_s * 1000.0).round() / 1000.0,
                "rule": st.rule, "note": st.note, "samples": st.samples,
            }),
        );
    }
    let known_seen = ctx.known_seen.lock().unwrap();
    for (id_, what) in known_seen.iter() {
        println!("KNOWN-FINDING: property={} {} {}", id, id_, what);
    }
    let wall = ctx.start.elapsed().as_secs_f64();
    let ev = json!({
        "property_id": id,
        "tier": tier.name(),
        "seed": seed as i64,
        "level": "exploration",
        "coverage": {
            "evaluations": evals + replayed,
            "distinct_nontrivial": dn,
            "rule": format!("distinct = distinct canonical encodings of the generated case (hash set, capped at 2^22 per sub-check; enumerations that never repeat a case are counted directly); non-trivial per sub-check: {}", rules.join(" | ")),
            "samples": samples,
            "exhaustive": exhaustive_all,
            "some_subchecks_exhaustive": any_exh,
            "regression_replays": replayed,
            "excluded_known": excluded_total,
            "known_findings_reconfirmed": known_seen.keys().collect::<Vec<_>>(),
            "subchecks": detail,
        },
        "assumptions": *ctx.assumptions.lock().unwrap(),
        "wall_s": (wall * 1000.0).round() / 1000.0,
        "violations": violations.len(),
    });
    let edir = root.join("evidence");
    let _ = std::fs::create_dir_all(&edir);
    if let Err(e) = std::fs::write(edir.join(format!("{id}.json")), serde_json::to_string_pretty(&ev).unwrap()) {
        eprintln!("cannot write evidence: {e}");
        return 2;
    }
    println!(
        "{} tier={} seed={} evaluations={} distinct_nontrivial={} wall={:.1}s violations={}",
        id, tier.name(), seed, evals + replayed, dn, wall, violations.len()
    );
    if violations.is_empty() {
        0
    } else {
        for v in &violations {
            println!("VIOLATION property={} replay={}", id, v);
        }
        1
    }
}
