//! Byte-level entry points for the libFuzzer targets: decode bytes into a structured case of an
//! existing sub-check and run its oracle (differential / invariant), not just "does it crash".
use crate::engine::{Obs, SubCheck};
use crate::props::c07::T;
use crate::props::c12::{FCase, V};
use crate::props::{c10, c11, c12, c15, c16};
use crate::refmodel::cal;
use serde_json::{json, Value};

fn text(data: &[u8]) -> String {
    String::from_utf8_lossy(data).into_owned()
}

/// first 14 bytes -> a value (kind, day, time, offset), rest -> format string
fn decode_strftime(data: &[u8]) -> FCase {
    let mut h = [0u8; 14];
    let n = data.len().min(14);
    h[..n].copy_from_slice(&data[..n]);
    let kind = h[0] % 4;
    let span = (cal::max_day() - cal::min_day() - 2) as u64;
    let raw = u32::from_le_bytes([h[1], h[2], h[3], h[4]]) as u64;
    // low values map near the epoch, high bit spreads over the whole range
    let day = if h[5] & 1 == 0 { (raw % 80_000) as i64 - 40_000 } else { cal::min_day() + 1 + (raw.wrapping_mul(0x9E37_79B9) % span) as i64 };
    let secs = u32::from_le_bytes([h[6], h[7], h[8], 0]) % 86_400;
    let mut frac = u32::from_le_bytes([h[9], h[10], h[11], h[12]]) % 1_000_000_000;
    if h[5] & 2 != 0 { frac = frac / 1_000_000 * 1_000_000; }
    if h[5] & 4 != 0 && secs % 60 == 59 { frac += 1_000_000_000; }
    let mut off = (i16::from_le_bytes([h[12], h[13]]) as i32) * 3 % 86_400;
    if h[5] & 8 != 0 { off = off / 60 * 60; }
    let mut v = V { kind, day, t: T { secs, frac }, off };
    if kind == 3 {
        let u = crate::props::c04::shift(crate::refmodel::inst::Ndt { day, secs, frac }, -(off as i64));
        if !crate::props::c04::representable(u) { v.off = 0; }
    }
    FCase { fmt: text(&data[n..]), v }
}

/// (subcheck property, subcheck name, structured case as JSON)
pub fn decode(target: &str, data: &[u8]) -> Option<(&'static str, &'static str, Value)> {
    Some(match target {
        "rfc3339" => ("C10", "reader", json!(text(data))),
        "rfc2822" => ("C11", "mutated_and_arbitrary", json!(text(data))),
        "strftime" => ("C12", "format", serde_json::to_value(decode_strftime(data)).ok()?),
        "parse_any" => {
            let cut = data.iter().position(|&b| b == 0xff).unwrap_or(data.len() / 2);
            let (a, b) = data.split_at(cut.min(data.len()));
            ("C15", "text_inputs", json!([text(a), text(b.get(1..).unwrap_or(&[]))]))
        }
        "tzif" => ("C16", "arbitrary_bytes", json!(data.to_vec())),
        _ => return None,
    })
}

pub fn run(target: &str, data: &[u8]) -> Result<(), String> {
    crate::guard::install_hook();
    let mut obs = Obs::default();
    match target {
        "rfc3339" => { if std::str::from_utf8(data).is_err() { return Ok(()); } c10::Reader.check(&text(data), &mut obs) }
        "rfc2822" => { if std::str::from_utf8(data).is_err() { return Ok(()); } c11::Mutated.check(&text(data), &mut obs) }
        "strftime" => {
            let c = decode_strftime(data);
            c12::Format.check(&c, &mut obs)?;
            c15::Items.check(&c.fmt, &mut obs)
        }
        "parse_any" => {
            let (_, _, v) = decode(target, data).ok_or("decode")?;
            let pair: (String, String) = serde_json::from_value(v).map_err(|e| e.to_string())?;
            c15::Text.check(&pair, &mut obs)
        }
        "tzif" => c16::Garbage.check(&data.to_vec(), &mut obs),
        _ => Err(format!("unknown fuzz target {target}")),
    }
}

/// seed corpus: literals from the repository's own tests plus grammar samples
pub fn seeds(target: &str) -> Vec<Vec<u8>> {
    match target {
        "rfc3339" => c10::SEEDS.iter().map(|s| s.as_bytes().to_vec()).collect(),
        "rfc2822" => c11::SEEDS.iter().map(|s| s.as_bytes().to_vec()).collect(),
        "strftime" => c12::SPECS.iter().flat_map(|s| c12::MODS.iter().map(move |m| { let mut v = vec![3u8, 1, 2, 3, 4, 5, 6, 7, 8, 9, 10, 11, 12, 13]; v.extend(format!("%{m}{s} x%%").bytes()); v })).collect(),
        "parse_any" => c10::SEEDS.iter().chain(c11::SEEDS.iter()).map(|s| { let mut v = s.as_bytes().to_vec(); v.push(0xff); v.extend(b"%Y-%m-%dT%H:%M:%S%.f%:z"); v }).chain(["%a, %d %b %Y %T %z", "%+", "%c", "%s", "%G-W%V-%u %I:%M %p"].iter().map(|f| { let mut v = b"Tue, 20 Jan 2015 17:35:20 -0800".to_vec(); v.push(0xff); v.extend(f.bytes()); v })).collect(),
        "tzif" => {
            let mut out: Vec<Vec<u8>> = vec![];
            for p in ["/usr/share/zoneinfo/Europe/Berlin", "/usr/share/zoneinfo/UTC", "/usr/share/zoneinfo/America/New_York", "/usr/share/zoneinfo/Asia/Kolkata", "/usr/share/zoneinfo/Australia/Lord_Howe"] {
                if let Ok(b) = std::fs::read(p) { out.push(b); }
            }
            for s in ["EST5EDT,M3.2.0,M11.1.0", "<+0330>-3:30", "AAA-1BBB,J60/0,300/25", "CET-1CEST,M3.5.0,M10.5.0/3"] { out.push(s.as_bytes().to_vec()); }
            out
        }
        _ => vec![],
    }
}
