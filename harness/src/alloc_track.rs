//! Counting global allocator: per-thread live/peak heap bytes while tracking is switched on.
use std::alloc::{GlobalAlloc, Layout, System};
use std::cell::Cell;

pub struct Counting;

thread_local! {
    static ON: Cell<bool> = const { Cell::new(false) };
    static LIVE: Cell<isize> = const { Cell::new(0) };
    static PEAK: Cell<isize> = const { Cell::new(0) };
}

unsafe impl GlobalAlloc for Counting {
    unsafe fn alloc(&self, l: Layout) -> *mut u8 {
        let p = System.alloc(l);
        if !p.is_null() { note(l.size() as isize); }
        p
    }
    unsafe fn dealloc(&self, p: *mut u8, l: Layout) {
        note(-(l.size() as isize));
        System.dealloc(p, l)
    }
    unsafe fn realloc(&self, p: *mut u8, l: Layout, new: usize) -> *mut u8 {
        let q = System.realloc(p, l, new);
        if !q.is_null() { note(new as isize - l.size() as isize); }
        q
    }
}
#[inline]
fn note(d: isize) {
    let _ = ON.try_with(|on| {
        if on.get() {
            let _ = LIVE.try_with(|c| {
                let v = c.get() + d;
                c.set(v);
                let _ = PEAK.try_with(|p| if v > p.get() { p.set(v) });
            });
        }
    });
}

/// run `f` and return (result, peak additional heap bytes on this thread during `f`)
pub fn measure<T>(f: impl FnOnce() -> T) -> (T, usize) {
    LIVE.with(|c| c.set(0));
    PEAK.with(|c| c.set(0));
    ON.with(|c| c.set(true));
    let r = f();
    ON.with(|c| c.set(false));
    (r, PEAK.with(|c| c.get()).max(0) as usize)
}
