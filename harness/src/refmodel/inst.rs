//! R-inst: instants as i128 nanoseconds since the Unix epoch; non-leap date-times <-> i128.
use super::cal;

pub const NS: i128 = 1_000_000_000;
pub const DAY_NS: i128 = 86_400 * NS;

#[derive(Clone, Copy, Debug, PartialEq, Eq, serde::Serialize, serde::Deserialize)]
pub struct Ndt {
    pub day: i64,  // days since 1970-01-01
    pub secs: u32, // second of day
    pub frac: u32, // nanoseconds, >= 1e9 for a leap second
}

pub fn min_inst() -> i128 { cal::min_day() as i128 * DAY_NS }
pub fn max_inst() -> i128 { cal::max_day() as i128 * DAY_NS + DAY_NS - 1 }
pub fn in_range(t: i128) -> bool { t >= min_inst() && t <= max_inst() }

/// split an instant (non-leap) into (day, sec of day, nanos)
pub fn split(t: i128) -> Ndt {
    let day = t.div_euclid(DAY_NS) as i64;
    let r = t.rem_euclid(DAY_NS);
    Ndt { day, secs: (r / NS) as u32, frac: (r % NS) as u32 }
}

/// instant of a date-time; a leap second maps to the instant of its non-leap nanos + 1s
pub fn join(n: Ndt) -> i128 {
    n.day as i128 * DAY_NS + n.secs as i128 * NS + n.frac as i128
}

pub const TD_MAX_NS: i128 = (i64::MAX as i128) * 1_000_000;
pub fn td_in_range(d: i128) -> bool { d >= -TD_MAX_NS && d <= TD_MAX_NS }
