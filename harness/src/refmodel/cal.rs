//! R-cal: proleptic Gregorian calendar on integers. No chrono code, no lookup tables.
//! Days are counted from 1970-01-01 (= day 0, a Thursday). `ce = unix_day + 719_163`.

pub const MIN_YEAR: i64 = -262_143;
pub const MAX_YEAR: i64 = 262_142;
pub const CE_SHIFT: i64 = 719_163;

pub fn is_leap(y: i64) -> bool {
    y.rem_euclid(4) == 0 && (y.rem_euclid(100) != 0 || y.rem_euclid(400) == 0)
}

pub fn days_in_year(y: i64) -> i64 {
    if is_leap(y) { 366 } else { 365 }
}

pub fn days_in_month(y: i64, m: u32) -> u32 {
    match m {
        1 | 3 | 5 | 7 | 8 | 10 | 12 => 31,
        4 | 6 | 9 | 11 => 30,
        2 => if is_leap(y) { 29 } else { 28 },
        _ => 0,
    }
}

/// days since 1970-01-01 of a (not necessarily range-limited) valid civil date
pub fn days_from_civil(y: i64, m: u32, d: u32) -> i64 {
    // era arithmetic: years start on 1 March so the leap day is last
    let y2 = if m <= 2 { y - 1 } else { y };
    let era = y2.div_euclid(400);
    let yoe = y2.rem_euclid(400); // [0, 399]
    let mp = (m as i64 + 9) % 12; // March = 0
    let doy = (153 * mp + 2) / 5 + d as i64 - 1; // [0, 365]
    let doe = yoe * 365 + yoe / 4 - yoe / 100 + doy; // [0, 146096]
    era * 146_097 + doe - 719_468
}

pub fn civil_from_days(z: i64) -> (i64, u32, u32) {
    let z = z + 719_468;
    let era = z.div_euclid(146_097);
    let doe = z.rem_euclid(146_097);
    let yoe = (doe - doe / 1460 + doe / 36_524 - doe / 146_096) / 365;
    let y = yoe + era * 400;
    let doy = doe - (365 * yoe + yoe / 4 - yoe / 100);
    let mp = (5 * doy + 2) / 153;
    let d = (doy - (153 * mp + 2) / 5 + 1) as u32;
    let m = if mp < 10 { mp + 3 } else { mp - 9 } as u32;
    (if m <= 2 { y + 1 } else { y }, m, d)
}

pub fn valid_ymd(y: i64, m: i64, d: i64) -> bool {
    (1..=12).contains(&m) && d >= 1 && d <= days_in_month(y, m as u32) as i64
}

pub fn min_day() -> i64 { days_from_civil(MIN_YEAR, 1, 1) }
pub fn max_day() -> i64 { days_from_civil(MAX_YEAR, 12, 31) }
pub fn in_range_day(z: i64) -> bool { z >= min_day() && z <= max_day() }

/// Monday = 0 ... Sunday = 6
pub fn weekday(z: i64) -> u32 { (z + 3).rem_euclid(7) as u32 }

pub fn ordinal(z: i64) -> u32 {
    let (y, _, _) = civil_from_days(z);
    (z - days_from_civil(y, 1, 1) + 1) as u32
}

pub fn day_from_yo(y: i64, o: i64) -> Option<i64> {
    if o >= 1 && o <= days_in_year(y) { Some(days_from_civil(y, 1, 1) + o - 1) } else { None }
}

/// ISO (year, week) by the Thursday rule
pub fn iso_week(z: i64) -> (i64, u32) {
    let thu = z - weekday(z) as i64 + 3;
    let (y, _, _) = civil_from_days(thu);
    let o = thu - days_from_civil(y, 1, 1); // 0-based
    (y, (o / 7 + 1) as u32)
}

pub fn iso_weeks_in_year(y: i64) -> u32 {
    // 28 December always lies in the last ISO week of its year
    iso_week(days_from_civil(y, 12, 28)).1
}

/// day of ISO (year, week, weekday Mon=0) if that week exists in that ISO year
pub fn day_from_isoywd(y: i64, w: i64, wd: u32) -> Option<i64> {
    if w < 1 || w > iso_weeks_in_year(y) as i64 { return None; }
    let jan4 = days_from_civil(y, 1, 4);
    let mon1 = jan4 - weekday(jan4) as i64;
    Some(mon1 + (w - 1) * 7 + wd as i64)
}

/// week of year with weeks starting on `start` (Mon=0..Sun=6); week 1 starts at the first `start`
/// day of the year, days before it are week 0 (%U: start=6, %W: start=0)
pub fn week_from(z: i64, start: u32) -> u32 {
    let (y, _, _) = civil_from_days(z);
    let jan1 = days_from_civil(y, 1, 1);
    // count the `start` weekdays in [jan1, z]
    let mut n = 0;
    let mut d = jan1;
    while d <= z && d < jan1 + 7 {
        if weekday(d) == start { n = 1 + ((z - d) / 7) as u32; break; }
        d += 1;
    }
    n
}

pub fn ce_from_unix_day(z: i64) -> i64 { z + CE_SHIFT }

#[derive(Clone, Copy, Debug, PartialEq, Eq)]
pub struct Fields {
    pub year: i64,
    pub month: u32,
    pub day: u32,
    pub ordinal: u32,
    pub weekday: u32,
    pub iso_year: i64,
    pub iso_week: u32,
    pub ce: i64,
    pub leap: bool,
}

pub fn fields(z: i64) -> Fields {
    let (y, m, d) = civil_from_days(z);
    let (iy, iw) = iso_week(z);
    Fields { year: y, month: m, day: d, ordinal: ordinal(z), weekday: weekday(z), iso_year: iy, iso_week: iw, ce: z + CE_SHIFT, leap: is_leap(y) }
}

/// month shift: (y, m) + n months, day clamped
pub fn add_months(y: i64, m: u32, d: u32, n: i64) -> (i64, u32, u32) {
    let t = y as i128 * 12 + (m as i128 - 1) + n as i128;
    let ny = t.div_euclid(12) as i64;
    let nm = t.rem_euclid(12) as u32 + 1;
    let nd = d.min(days_in_month(ny, nm));
    (ny, nm, nd)
}

pub fn self_check() {
    assert_eq!(days_from_civil(1970, 1, 1), 0);
    assert_eq!(ce_from_unix_day(days_from_civil(1, 1, 1)), 1);
    assert_eq!(weekday(days_from_civil(1, 1, 1)), 0);
    assert_eq!(weekday(0), 3);
    assert!(valid_ymd(2000, 2, 29) && !valid_ymd(1900, 2, 29));
    assert_eq!(civil_from_days(days_from_civil(-262_143, 1, 1)), (-262_143, 1, 1));
    assert_eq!(civil_from_days(11_016), (2000, 2, 29));
    assert_eq!(iso_week(days_from_civil(2021, 1, 3)), (2020, 53));
    assert_eq!(iso_week(days_from_civil(2018, 12, 31)), (2019, 1));
    assert_eq!(max_day() - min_day() + 1, 191_491_529);
    assert_eq!(week_from(days_from_civil(2023, 1, 1), 6), 1); // Sunday
    assert_eq!(week_from(days_from_civil(2023, 1, 1), 0), 0);
    assert_eq!(week_from(days_from_civil(2023, 1, 2), 0), 1);
}
