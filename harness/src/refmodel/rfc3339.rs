//! R-3339: hand-written recognizer + evaluator for the RFC 3339 `date-time` ABNF with the
//! documented latitude (T/t/space separator, Z/z, any number of fraction digits, U+2212 as minus).
use super::cal;
use super::inst::Ndt;

#[derive(Clone, Copy, Debug, PartialEq, Eq)]
pub struct Parsed3339 {
    /// wall clock; a second of 60 is `secs % 60 == 59` with `frac >= 1e9`
    pub wall: Ndt,
    pub off: i32,
}

struct Cur<'a> {
    b: &'a [u8],
    i: usize,
}
impl Cur<'_> {
    fn digits(&mut self, n: usize) -> Option<i64> {
        if self.i + n > self.b.len() { return None; }
        let mut v = 0i64;
        for k in 0..n {
            let c = self.b[self.i + k];
            if !c.is_ascii_digit() { return None; }
            v = v * 10 + (c - b'0') as i64;
        }
        self.i += n;
        Some(v)
    }
    fn lit(&mut self, c: u8) -> Option<()> {
        if self.b.get(self.i) == Some(&c) { self.i += 1; Some(()) } else { None }
    }
    fn peek(&self) -> Option<u8> { self.b.get(self.i).copied() }
}

/// `Some` exactly when `s` matches the grammar and denotes an existing date, time of day
/// (second <= 60) and an offset within +/-23:59.
pub fn parse(s: &str) -> Option<Parsed3339> {
    let mut c = Cur { b: s.as_bytes(), i: 0 };
    let y = c.digits(4)?;
    c.lit(b'-')?;
    let mo = c.digits(2)?;
    c.lit(b'-')?;
    let d = c.digits(2)?;
    match c.peek()? { b'T' | b't' | b' ' => c.i += 1, _ => return None }
    let h = c.digits(2)?;
    c.lit(b':')?;
    let mi = c.digits(2)?;
    c.lit(b':')?;
    let sec = c.digits(2)?;
    let mut frac: u32 = 0;
    if c.peek() == Some(b'.') {
        c.i += 1;
        let start = c.i;
        let mut scale = 100_000_000u32;
        while let Some(ch) = c.peek() {
            if !ch.is_ascii_digit() { break; }
            if c.i - start < 9 { frac += (ch - b'0') as u32 * scale; scale /= 10; }
            c.i += 1;
        }
        if c.i == start { return None; }
    }
    let off = match c.peek()? {
        b'Z' | b'z' => { c.i += 1; 0 }
        sign => {
            let neg = if sign == b'+' { c.i += 1; false }
                else if sign == b'-' { c.i += 1; true }
                else if c.b[c.i..].starts_with("\u{2212}".as_bytes()) { c.i += 3; true }
                else { return None };
            let oh = c.digits(2)?;
            c.lit(b':')?;
            let om = c.digits(2)?;
            if oh > 23 || om > 59 { return None; }
            let v = (oh * 3600 + om * 60) as i32;
            if neg { -v } else { v }
        }
    };
    if c.i != c.b.len() { return None; }
    if !cal::valid_ymd(y, mo, d) || h > 23 || mi > 59 || sec > 60 { return None; }
    let day = cal::days_from_civil(y, mo as u32, d as u32);
    let (s59, frac) = if sec == 60 { (59, frac + 1_000_000_000) } else { (sec, frac) };
    Some(Parsed3339 { wall: Ndt { day, secs: (h * 3600 + mi * 60 + s59) as u32, frac }, off })
}
