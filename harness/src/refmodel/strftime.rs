//! R-fmt: reference strftime. A tokenizer for the documented syntax and a renderer of every
//! documented specifier from R-cal fields. Written from the specifier table in the module
//! documentation of `chrono::format::strftime`; no chrono code.
use super::cal;

#[derive(Clone, Copy, Debug, PartialEq, Eq)]
pub enum Pad {
    None,
    Zero,
    Space,
}

#[derive(Clone, Copy, Debug, PartialEq, Eq)]
pub enum Num {
    Year, Century, YearMod100, IsoYear, IsoYearMod100, Quarter, Month, Day, WeekSun, WeekMon, IsoWeek,
    WdayFromSun0, WdayFromMon1, Ordinal, Hour, Hour12, Minute, Second, Nano, Timestamp,
}

#[derive(Clone, Copy, Debug, PartialEq, Eq)]
pub enum Fix {
    ShortMonth, LongMonth, ShortWeekday, LongWeekday, LowerAmPm, UpperAmPm,
    FracAuto, Frac3, Frac6, Frac9, Frac3NoDot, Frac6NoDot, Frac9NoDot,
    OffNoColon, OffColon, OffSeconds, OffHours, TzName, Rfc3339,
    /// `%#z`: parsing only
    OffPermissive,
}

#[derive(Clone, Debug, PartialEq, Eq)]
pub enum Tok {
    Lit(String),
    Num(Num, Pad),
    Fix(Fix),
}

fn default_pad(spec: char) -> Option<(Num, Pad)> {
    use Num::*;
    Some(match spec {
        'Y' => (Year, Pad::Zero), 'C' => (Century, Pad::Zero), 'y' => (YearMod100, Pad::Zero),
        'G' => (IsoYear, Pad::Zero), 'g' => (IsoYearMod100, Pad::Zero), 'q' => (Quarter, Pad::None),
        'm' => (Month, Pad::Zero), 'd' => (Day, Pad::Zero), 'e' => (Day, Pad::Space),
        'U' => (WeekSun, Pad::Zero), 'W' => (WeekMon, Pad::Zero), 'V' => (IsoWeek, Pad::Zero),
        'w' => (WdayFromSun0, Pad::None), 'u' => (WdayFromMon1, Pad::None), 'j' => (Ordinal, Pad::Zero),
        'H' => (Hour, Pad::Zero), 'k' => (Hour, Pad::Space), 'I' => (Hour12, Pad::Zero), 'l' => (Hour12, Pad::Space),
        'M' => (Minute, Pad::Zero), 'S' => (Second, Pad::Zero), 'f' => (Nano, Pad::Zero), 's' => (Timestamp, Pad::None),
        _ => return None,
    })
}

fn composite(spec: char) -> Option<Vec<Tok>> {
    use Num::*;
    let n0 = |k| Tok::Num(k, Pad::Zero);
    let l = |s: &str| Tok::Lit(s.to_string());
    Some(match spec {
        'D' | 'x' => vec![n0(Month), l("/"), n0(Day), l("/"), n0(YearMod100)],
        'F' => vec![n0(Year), l("-"), n0(Month), l("-"), n0(Day)],
        'v' => vec![Tok::Num(Day, Pad::Space), l("-"), Tok::Fix(Fix::ShortMonth), l("-"), n0(Year)],
        'R' => vec![n0(Hour), l(":"), n0(Minute)],
        'T' | 'X' => vec![n0(Hour), l(":"), n0(Minute), l(":"), n0(Second)],
        'r' => vec![n0(Hour12), l(":"), n0(Minute), l(":"), n0(Second), l(" "), Tok::Fix(Fix::UpperAmPm)],
        'c' => vec![Tok::Fix(Fix::ShortWeekday), l(" "), Tok::Fix(Fix::ShortMonth), l(" "), Tok::Num(Day, Pad::Space), l(" "), n0(Hour), l(":"), n0(Minute), l(":"), n0(Second), l(" "), n0(Year)],
        _ => return None,
    })
}

/// `Err(())`: the format string contains an unknown / malformed specifier (formatting must fail).
pub fn tokenize(fmt: &str) -> Result<Vec<Tok>, ()> {
    let cs: Vec<char> = fmt.chars().collect();
    let mut out: Vec<Tok> = vec![];
    let mut i = 0;
    let mut lit = String::new();
    macro_rules! flush { () => { if !lit.is_empty() { out.push(Tok::Lit(std::mem::take(&mut lit))); } }; }
    while i < cs.len() {
        if cs[i] != '%' {
            lit.push(cs[i]);
            i += 1;
            continue;
        }
        flush!();
        i += 1;
        let mut spec = *cs.get(i).ok_or(())?;
        i += 1;
        let pad = match spec { '-' => Some(Pad::None), '0' => Some(Pad::Zero), '_' => Some(Pad::Space), _ => None };
        let alt = spec == '#';
        if pad.is_some() || alt {
            spec = *cs.get(i).ok_or(())?;
            i += 1;
        }
        if alt {
            if spec != 'z' { return Err(()); }
            out.push(Tok::Fix(Fix::OffPermissive));
            continue;
        }
        if let Some((k, p)) = default_pad(spec) {
            out.push(Tok::Num(k, pad.unwrap_or(p)));
            continue;
        }
        // everything below is non-numeric or composite: a padding modifier is an error
        if pad.is_some() { return Err(()); }
        if let Some(v) = composite(spec) {
            out.extend(v);
            continue;
        }
        let rest: String = cs[i..].iter().take(3).collect();
        let tok = match spec {
            'b' | 'h' => Tok::Fix(Fix::ShortMonth), 'B' => Tok::Fix(Fix::LongMonth),
            'a' => Tok::Fix(Fix::ShortWeekday), 'A' => Tok::Fix(Fix::LongWeekday),
            'P' => Tok::Fix(Fix::LowerAmPm), 'p' => Tok::Fix(Fix::UpperAmPm),
            'z' => Tok::Fix(Fix::OffNoColon), 'Z' => Tok::Fix(Fix::TzName), '+' => Tok::Fix(Fix::Rfc3339),
            't' => Tok::Lit("\t".into()), 'n' => Tok::Lit("\n".into()), '%' => Tok::Lit("%".into()),
            ':' => {
                if rest.starts_with("::z") { i += 3; Tok::Fix(Fix::OffHours) }
                else if rest.starts_with(":z") { i += 2; Tok::Fix(Fix::OffSeconds) }
                else if rest.starts_with('z') { i += 1; Tok::Fix(Fix::OffColon) }
                else { return Err(()) }
            }
            '.' => {
                if rest.starts_with("3f") { i += 2; Tok::Fix(Fix::Frac3) }
                else if rest.starts_with("6f") { i += 2; Tok::Fix(Fix::Frac6) }
                else if rest.starts_with("9f") { i += 2; Tok::Fix(Fix::Frac9) }
                else if rest.starts_with('f') { i += 1; Tok::Fix(Fix::FracAuto) }
                else { return Err(()) }
            }
            '3' | '6' | '9' => {
                if rest.starts_with('f') { i += 1; Tok::Fix(match spec { '3' => Fix::Frac3NoDot, '6' => Fix::Frac6NoDot, _ => Fix::Frac9NoDot }) } else { return Err(()) }
            }
            _ => return Err(()),
        };
        out.push(tok);
    }
    flush!();
    Ok(out)
}

#[derive(Clone, Copy, Debug)]
pub struct Val {
    /// wall-clock date (days since 1970-01-01; may lie one day outside the nominal range)
    pub day: Option<i64>,
    /// (second of day, nanosecond field incl. leap representation)
    pub time: Option<(u32, u32)>,
    pub off: Option<i32>,
}

#[derive(Clone, Debug, PartialEq, Eq)]
pub enum Out {
    Text(String),
    /// formatting must fail
    Error,
    /// the documentation does not fix the output (e.g. %y for negative years, %Z with seconds)
    Unspecified,
}

/// left-pad `v` to the documented minimum width; `always_sign`: explicit sign, not counted in the width
pub fn number(v: i64, width: usize, pad: Pad, always_sign: bool) -> String {
    let digits = v.unsigned_abs().to_string();
    let sign = if v < 0 { "-" } else if always_sign { "+" } else { "" };
    let target = if always_sign { width + 1 } else { width };
    let len = sign.len() + digits.len();
    let fill = target.saturating_sub(len);
    match pad {
        Pad::None => format!("{sign}{digits}"),
        Pad::Zero => format!("{sign}{}{digits}", "0".repeat(fill)),
        Pad::Space => format!("{}{sign}{digits}", " ".repeat(fill)),
    }
}
fn year(y: i64, pad: Pad) -> String {
    if (1000..=9999).contains(&y) { return y.to_string(); }
    number(y, 4, pad, !(0..10_000).contains(&y))
}
pub fn offset(off: i32, colon: bool, seconds: bool) -> String {
    let sign = if off < 0 { '-' } else { '+' };
    let a = off.abs();
    let c = if colon { ":" } else { "" };
    if seconds {
        format!("{sign}{:02}{c}{:02}{c}{:02}", a / 3600, a / 60 % 60, a % 60)
    } else {
        let m = (a + 30) / 60; // rounded to the nearest minute
        format!("{sign}{:02}{c}{:02}", m / 60, m % 60)
    }
}
const MON_S: [&str; 12] = ["Jan", "Feb", "Mar", "Apr", "May", "Jun", "Jul", "Aug", "Sep", "Oct", "Nov", "Dec"];
const MON_L: [&str; 12] = ["January", "February", "March", "April", "May", "June", "July", "August", "September", "October", "November", "December"];
const DAY_S: [&str; 7] = ["Mon", "Tue", "Wed", "Thu", "Fri", "Sat", "Sun"];
const DAY_L: [&str; 7] = ["Monday", "Tuesday", "Wednesday", "Thursday", "Friday", "Saturday", "Sunday"];

pub fn render(toks: &[Tok], v: &Val) -> Out {
    let mut s = String::new();
    let mut unspecified = false;
    for t in toks {
        match t {
            Tok::Lit(l) => s.push_str(l),
            Tok::Num(k, pad) => {
                use Num::*;
                let pad = *pad;
                let date = || v.day.map(cal::fields);
                let piece = match k {
                    Year => match date() { Some(f) => year(f.year, pad), None => return Out::Error },
                    IsoYear => match date() { Some(f) => year(f.iso_year, pad), None => return Out::Error },
                    Century => match date() { Some(f) => number(f.year.div_euclid(100), 2, pad, false), None => return Out::Error },
                    YearMod100 => match date() { Some(f) => { if f.year < 0 { unspecified = true; } number(f.year.rem_euclid(100), 2, pad, false) } None => return Out::Error },
                    IsoYearMod100 => match date() { Some(f) => { if f.iso_year < 0 { unspecified = true; } number(f.iso_year.rem_euclid(100), 2, pad, false) } None => return Out::Error },
                    Quarter => match date() { Some(f) => number(((f.month - 1) / 3 + 1) as i64, 1, pad, false), None => return Out::Error },
                    Month => match date() { Some(f) => number(f.month as i64, 2, pad, false), None => return Out::Error },
                    Day => match date() { Some(f) => number(f.day as i64, 2, pad, false), None => return Out::Error },
                    WeekSun => match v.day { Some(z) => number(cal::week_from(z, 6) as i64, 2, pad, false), None => return Out::Error },
                    WeekMon => match v.day { Some(z) => number(cal::week_from(z, 0) as i64, 2, pad, false), None => return Out::Error },
                    IsoWeek => match date() { Some(f) => number(f.iso_week as i64, 2, pad, false), None => return Out::Error },
                    WdayFromSun0 => match date() { Some(f) => number(((f.weekday + 1) % 7) as i64, 1, pad, false), None => return Out::Error },
                    WdayFromMon1 => match date() { Some(f) => number(f.weekday as i64 + 1, 1, pad, false), None => return Out::Error },
                    Ordinal => match date() { Some(f) => number(f.ordinal as i64, 3, pad, false), None => return Out::Error },
                    Hour => match v.time { Some((sec, _)) => number((sec / 3600) as i64, 2, pad, false), None => return Out::Error },
                    Hour12 => match v.time { Some((sec, _)) => number(((sec / 3600 + 11) % 12 + 1) as i64, 2, pad, false), None => return Out::Error },
                    Minute => match v.time { Some((sec, _)) => number((sec / 60 % 60) as i64, 2, pad, false), None => return Out::Error },
                    Second => match v.time { Some((sec, fr)) => number((sec % 60 + fr / 1_000_000_000) as i64, 2, pad, false), None => return Out::Error },
                    Nano => match v.time { Some((_, fr)) => number((fr % 1_000_000_000) as i64, 9, pad, false), None => return Out::Error },
                    Timestamp => match (v.day, v.time) {
                        // seconds since the epoch of the instant; leap seconds are not counted
                        (Some(z), Some((sec, _))) => number(z * 86_400 + sec as i64 - v.off.unwrap_or(0) as i64, 1, pad, false),
                        _ => return Out::Error,
                    },
                };
                s.push_str(&piece);
            }
            Tok::Fix(k) => {
                use Fix::*;
                let date = || v.day.map(cal::fields);
                match k {
                    ShortMonth => match date() { Some(f) => s.push_str(MON_S[(f.month - 1) as usize]), None => return Out::Error },
                    LongMonth => match date() { Some(f) => s.push_str(MON_L[(f.month - 1) as usize]), None => return Out::Error },
                    ShortWeekday => match date() { Some(f) => s.push_str(DAY_S[f.weekday as usize]), None => return Out::Error },
                    LongWeekday => match date() { Some(f) => s.push_str(DAY_L[f.weekday as usize]), None => return Out::Error },
                    LowerAmPm => match v.time { Some((sec, _)) => s.push_str(if sec >= 43_200 { "pm" } else { "am" }), None => return Out::Error },
                    UpperAmPm => match v.time { Some((sec, _)) => s.push_str(if sec >= 43_200 { "PM" } else { "AM" }), None => return Out::Error },
                    FracAuto | Frac3 | Frac6 | Frac9 | Frac3NoDot | Frac6NoDot | Frac9NoDot => match v.time {
                        Some((_, fr)) => {
                            let n = fr % 1_000_000_000;
                            match k {
                                FracAuto => { if n == 0 {} else if n % 1_000_000 == 0 { s.push_str(&format!(".{:03}", n / 1_000_000)) } else if n % 1000 == 0 { s.push_str(&format!(".{:06}", n / 1000)) } else { s.push_str(&format!(".{n:09}")) } }
                                Frac3 => s.push_str(&format!(".{:03}", n / 1_000_000)),
                                Frac6 => s.push_str(&format!(".{:06}", n / 1000)),
                                Frac9 => s.push_str(&format!(".{n:09}")),
                                Frac3NoDot => s.push_str(&format!("{:03}", n / 1_000_000)),
                                Frac6NoDot => s.push_str(&format!("{:06}", n / 1000)),
                                _ => s.push_str(&format!("{n:09}")),
                            }
                        }
                        None => return Out::Error,
                    },
                    OffNoColon => match v.off { Some(o) => s.push_str(&offset(o, false, false)), None => return Out::Error },
                    OffColon => match v.off { Some(o) => s.push_str(&offset(o, true, false)), None => return Out::Error },
                    OffSeconds => match v.off { Some(o) => s.push_str(&offset(o, true, true)), None => return Out::Error },
                    OffHours => match v.off { Some(o) => s.push_str(&format!("{}{:02}", if o < 0 { '-' } else { '+' }, o.abs() / 3600)), None => return Out::Error },
                    TzName => match v.off {
                        // documented as identical to %:z; only where that is unambiguous (whole minutes)
                        Some(o) => { if o % 60 != 0 { unspecified = true; } s.push_str(&offset(o, true, false)) }
                        None => return Out::Error,
                    },
                    Rfc3339 => match (v.day, v.time, v.off) {
                        (Some(z), Some((sec, fr)), Some(o)) => {
                            let f = cal::fields(z);
                            let n = fr % 1_000_000_000;
                            let frac = if n == 0 { String::new() } else if n % 1_000_000 == 0 { format!(".{:03}", n / 1_000_000) } else if n % 1000 == 0 { format!(".{:06}", n / 1000) } else { format!(".{n:09}") };
                            s.push_str(&format!("{}-{:02}-{:02}T{:02}:{:02}:{:02}{frac}{}", year(f.year, Pad::Zero), f.month, f.day, sec / 3600, sec / 60 % 60, sec % 60 + fr / 1_000_000_000, offset(o, true, false)));
                        }
                        _ => return Out::Error,
                    },
                    OffPermissive => unspecified = true,
                }
            }
        }
    }
    if unspecified { Out::Unspecified } else { Out::Text(s) }
}
