//! Reference text forms (default Display/Debug shapes), built from model fields only.
use super::cal;

/// ISO-8601 style year: 4 digits for 0..=9999, else explicit sign and at least 4 digits
pub fn year(y: i64) -> String {
    if (0..=9999).contains(&y) { format!("{y:04}") } else { format!("{}{:04}", if y < 0 { '-' } else { '+' }, y.abs()) }
}
pub fn date(day: i64) -> String {
    let (y, m, d) = cal::civil_from_days(day);
    format!("{}-{m:02}-{d:02}", year(y))
}
/// HH:MM:SS[.fff[fff[fff]]] with second 60 for a leap second, shortest lossless of 0/3/6/9 digits
pub fn time(secs: u32, frac: u32) -> String {
    let (h, m, mut s) = (secs / 3600, secs / 60 % 60, secs % 60);
    let mut n = frac;
    if n >= 1_000_000_000 { s += 1; n -= 1_000_000_000; }
    let mut out = format!("{h:02}:{m:02}:{s:02}");
    if n == 0 {
    } else if n % 1_000_000 == 0 { out += &format!(".{:03}", n / 1_000_000); }
    else if n % 1000 == 0 { out += &format!(".{:06}", n / 1000); }
    else { out += &format!(".{n:09}"); }
    out
}
/// +HH:MM or +HH:MM:SS when the offset has seconds
pub fn offset(off: i32) -> String {
    let sign = if off < 0 { '-' } else { '+' };
    let a = off.abs();
    if a % 60 == 0 { format!("{sign}{:02}:{:02}", a / 3600, a / 60 % 60) } else { format!("{sign}{:02}:{:02}:{:02}", a / 3600, a / 60 % 60, a % 60) }
}
