pub mod cal;
pub mod inst;
