pub mod cal;
pub mod fmt;
pub mod inst;
