pub mod cal;
pub mod fmt;
pub mod inst;
pub mod rfc2822;
pub mod rfc3339;
pub mod strftime;
pub mod zone;
