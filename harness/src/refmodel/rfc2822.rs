//! R-2822: recognizer + evaluator for chrono's documented adaptation of the RFC 2822 `date-time`
//! syntax (the grammar comment in src/format/parse.rs), written independently; `S` = any Unicode
//! white space. Generous where the grammar says `*S`.
use super::cal;
use super::inst::Ndt;

pub const MONTHS: [&str; 12] = ["jan", "feb", "mar", "apr", "may", "jun", "jul", "aug", "sep", "oct", "nov", "dec"];
pub const DAYS: [&str; 7] = ["mon", "tue", "wed", "thu", "fri", "sat", "sun"];

#[derive(Clone, Copy, Debug, PartialEq, Eq)]
pub struct Parsed2822 {
    pub wall: Ndt,
    pub off: i32,
}

struct Cur<'a> {
    s: &'a str,
}
impl<'a> Cur<'a> {
    fn ws(&mut self) -> usize {
        let t = self.s.trim_start();
        let n = self.s.len() - t.len();
        self.s = t;
        n
    }
    fn digits(&mut self, min: usize, max: usize) -> Option<(i64, usize)> {
        let n = self.s.bytes().take(max).take_while(|b| b.is_ascii_digit()).count();
        if n < min { return None; }
        let v: i64 = self.s[..n].parse().ok()?;
        self.s = &self.s[n..];
        Some((v, n))
    }
    fn name3(&mut self, table: &[&str]) -> Option<usize> {
        let head = self.s.get(..3)?;
        let i = table.iter().position(|n| n.eq_ignore_ascii_case(head))?;
        self.s = &self.s[3..];
        Some(i)
    }
    fn lit(&mut self, c: char) -> Option<()> {
        self.s = self.s.strip_prefix(c)?;
        Some(())
    }
}

pub fn zone_name(name: &str) -> Option<i32> {
    let l = name.to_ascii_lowercase();
    Some(match l.as_str() {
        "ut" | "gmt" | "z" => 0,
        "edt" => -4 * 3600,
        "est" | "cdt" => -5 * 3600,
        "cst" | "mdt" => -6 * 3600,
        "mst" | "pdt" => -7 * 3600,
        "pst" => -8 * 3600,
        _ => {
            let b = l.as_bytes();
            if b.len() == 1 && b[0].is_ascii_lowercase() && b[0] != b'j' && b[0] != b'z' { 0 } else { return None }
        }
    })
}

pub fn parse(input: &str) -> Option<Parsed2822> {
    let mut c = Cur { s: input };
    c.ws();
    let mut weekday = None;
    {
        let save = c.s;
        if let Some(i) = c.name3(&DAYS) {
            c.ws();
            if c.lit(',').is_some() { weekday = Some(i as u32); } else { c.s = save; }
        }
    }
    c.ws();
    let (d, _) = c.digits(1, 2)?;
    if c.ws() == 0 { return None; }
    let mo = c.name3(&MONTHS)? as u32 + 1;
    if c.ws() == 0 { return None; }
    let (mut y, ylen) = c.digits(2, usize::MAX)?;
    match ylen { 2 => y += if y < 50 { 2000 } else { 1900 }, 3 => y += 1900, _ => {} }
    if c.ws() == 0 { return None; }
    let (h, _) = c.digits(2, 2)?;
    c.ws(); c.lit(':')?; c.ws();
    let (mi, _) = c.digits(2, 2)?;
    let mut sec = 0;
    {
        let save = c.s;
        c.ws();
        if c.lit(':').is_some() { c.ws(); sec = c.digits(2, 2)?.0; } else { c.s = save; }
    }
    if c.ws() == 0 { return None; }
    // zone
    let alpha = c.s.bytes().take_while(|b| b.is_ascii_alphabetic()).count();
    let off = if alpha > 0 {
        let o = zone_name(&c.s[..alpha])?;
        c.s = &c.s[alpha..];
        o
    } else {
        let neg = if c.lit('+').is_some() { false } else if c.lit('-').is_some() { true } else { return None };
        let (hh, _) = c.digits(2, 2)?;
        let (mm, _) = c.digits(2, 2)?;
        if mm > 59 { return None; }
        let v = (hh * 3600 + mm * 60) as i32;
        if neg { -v } else { v }
    };
    // comments
    loop {
        let save = c.s;
        c.ws();
        if !c.s.starts_with('(') { c.s = save; break; }
        let mut depth = 0i32;
        let mut esc = false;
        let mut end = None;
        for (i, ch) in c.s.bytes().enumerate() {
            if esc { esc = false; continue; }
            match ch {
                b'\\' => esc = true,
                b'(' => depth += 1,
                b')' => { depth -= 1; if depth == 0 { end = Some(i + 1); break; } }
                _ => {}
            }
        }
        c.s = &c.s[end?..];
    }
    c.ws();
    if !c.s.is_empty() { return None; }
    if !cal::valid_ymd(y, mo as i64, d) || h > 23 || mi > 59 || sec > 60 || off.abs() >= 86_400 { return None; }
    let day = cal::days_from_civil(y, mo, d as u32);
    if let Some(w) = weekday { if cal::weekday(day) != w { return None; } }
    let (s59, frac) = if sec == 60 { (59, 1_000_000_000) } else { (sec, 0) };
    Some(Parsed2822 { wall: Ndt { day, secs: (h * 3600 + mi * 60 + s59) as u32, frac }, off })
}
