//! R-zone: a zone is a step function from instants to offsets. Model, RFC 8536 semantics
//! (`offset_at`), independent POSIX-rule evaluator, wall-clock preimage, TZif writer and reader,
//! TZ-string writer and parser. No chrono code.
use super::cal;
use serde::{Deserialize, Serialize};

#[derive(Clone, Debug, PartialEq, Eq, Serialize, Deserialize)]
pub struct ZType {
    pub utoff: i32,
    pub isdst: bool,
    pub abbr: String,
}

#[derive(Clone, Copy, Debug, PartialEq, Eq, Serialize, Deserialize)]
pub enum Day {
    /// `Jn`, 1..=365, 29 February never counted
    J1(u16),
    /// `n`, 0..=365, 29 February counted
    J0(u16),
    /// `Mm.w.d`: weekday d (0 = Sunday) of week w (5 = last) of month m
    Mwd(u8, u8, u8),
}

#[derive(Clone, Debug, PartialEq, Eq, Serialize, Deserialize)]
pub enum Rule {
    Fixed(ZType),
    Alt { std: ZType, dst: ZType, start: Day, start_time: i32, end: Day, end_time: i32 },
}

#[derive(Clone, Debug, PartialEq, Eq, Serialize, Deserialize)]
pub struct Model {
    pub types: Vec<ZType>,
    /// strictly increasing (unix time, type index)
    pub transitions: Vec<(i64, usize)>,
    pub footer: Option<Rule>,
}

// ------------------------------------------------------------------------------------------ rules
impl Day {
    /// unix day of this rule day in calendar year `y`
    pub fn date(self, y: i64) -> i64 {
        let jan1 = cal::days_from_civil(y, 1, 1);
        match self {
            Day::J0(n) => jan1 + n as i64,
            Day::J1(n) => {
                // n-th day of a 365-day year; skip 29 February in leap years
                let n = n as i64;
                if cal::is_leap(y) && n >= 60 { jan1 + n } else { jan1 + n - 1 }
            }
            Day::Mwd(m, w, d) => {
                let first = cal::days_from_civil(y, m as u32, 1);
                let wd_first = (cal::weekday(first) + 1) % 7; // 0 = Sunday
                let mut day = 1 + (d as i64 + 7 - wd_first as i64) % 7 + (w as i64 - 1) * 7;
                let len = cal::days_in_month(y, m as u32) as i64;
                while day > len { day -= 7; }
                first + day - 1
            }
        }
    }
}

impl Rule {
    /// all rule transitions of calendar years y-1..=y+1 as (instant, becomes_dst), sorted
    fn transitions_around(&self, y: i64) -> Vec<(i64, bool)> {
        let mut v = vec![];
        if let Rule::Alt { std, dst, start, start_time, end, end_time } = self {
            for yy in y - 1..=y + 1 {
                // the start time is expressed in standard local time, the end time in DST local time
                v.push((start.date(yy) * 86_400 + *start_time as i64 - std.utoff as i64, true));
                v.push((end.date(yy) * 86_400 + *end_time as i64 - dst.utoff as i64, false));
            }
            // at one and the same instant the start comes first: daylight time of zero length never
            // applies (the reading of POSIX TZ that glibc implements: DST iff start <= t < end when start <= end)
            v.sort_by_key(|x| (x.0, !x.1));
        }
        v
    }
    pub fn type_at(&self, u: i64) -> &ZType {
        match self {
            Rule::Fixed(t) => t,
            Rule::Alt { std, dst, .. } => {
                let y = cal::civil_from_days((u + std.utoff as i64).div_euclid(86_400)).0;
                let tr = self.transitions_around(y);
                let mut state = None;
                for (t, to_dst) in &tr {
                    if *t <= u { state = Some(*to_dst); }
                }
                let is_dst = state.unwrap_or_else(|| !tr[0].1);
                if is_dst { dst } else { std }
            }
        }
    }
    pub fn offsets(&self) -> Vec<i32> {
        match self {
            Rule::Fixed(t) => vec![t.utoff],
            Rule::Alt { std, dst, .. } => vec![std.utoff, dst.utoff],
        }
    }
    /// rule transitions (instants) in calendar years y-1..=y+1
    pub fn instants_around(&self, y: i64) -> Vec<i64> {
        self.transitions_around(y).into_iter().map(|x| x.0).collect()
    }
    /// the quantifier's restriction: both transitions more than one day inside the calendar year,
    /// in local time of either side, for every year type
    /// both rule transitions more than a day inside every probed year (the quantifier's restriction), without
    /// the distance requirement of `well_inside_year`
    pub fn edges_inside_year(&self) -> bool {
        match self {
            Rule::Fixed(_) => true,
            Rule::Alt { std, dst, start, start_time, end, end_time } => {
                for y in (1995i64..2023).chain([1899, 1900, 2000, 2100]) {
                    let jan1 = cal::days_from_civil(y, 1, 1) * 86_400;
                    let next = cal::days_from_civil(y + 1, 1, 1) * 86_400;
                    let spread = (std.utoff - dst.utoff).abs() as i64;
                    for (d, t) in [(start, start_time), (end, end_time)] {
                        let local = d.date(y) * 86_400 + *t as i64;
                        if local - spread < jan1 + 2 * 86_400 || local + spread > next - 2 * 86_400 { return false; }
                    }
                }
                true
            }
        }
    }
    pub fn well_inside_year(&self) -> bool {
        match self {
            Rule::Fixed(_) => true,
            Rule::Alt { std, dst, start, start_time, end, end_time } => {
                // the same hemisphere in every year: a rule whose start/end order flips between years
                // has no well-defined meaning at the year boundary (outside the quantifier)
                let north0 = start.date(1995) * 86_400 + (*start_time as i64) < end.date(1995) * 86_400 + (*end_time as i64);
                for y in (1995i64..2023).chain([1899, 1900, 2000, 2100]) {
                    let north = start.date(y) * 86_400 + (*start_time as i64) < end.date(y) * 86_400 + (*end_time as i64);
                    if north != north0 { return false; }
                    let jan1 = cal::days_from_civil(y, 1, 1) * 86_400;
                    let next = cal::days_from_civil(y + 1, 1, 1) * 86_400;
                    let spread = (std.utoff - dst.utoff).abs() as i64;
                    for (d, t) in [(start, start_time), (end, end_time)] {
                        let local = d.date(y) * 86_400 + *t as i64;
                        if local - spread < jan1 + 2 * 86_400 || local + spread > next - 2 * 86_400 { return false; }
                    }
                    // start and end must be distinct instants, at least two days apart
                    let s = start.date(y) * 86_400 + *start_time as i64 - std.utoff as i64;
                    let e = end.date(y) * 86_400 + *end_time as i64 - dst.utoff as i64;
                    if (s - e).abs() < 2 * 86_400 + spread { return false; }
                }
                true
            }
        }
    }
}

// -------------------------------------------------------------------------------------- semantics
impl Model {
    pub fn type_at(&self, u: i64) -> &ZType {
        match (self.transitions.first(), self.transitions.last()) {
            (Some(first), Some(last)) => {
                if u < first.0 {
                    &self.types[0]
                } else if u >= last.0 {
                    match &self.footer { Some(r) => r.type_at(u), None => &self.types[last.1] }
                } else {
                    // last transition at or before u
                    let i = self.transitions.partition_point(|t| t.0 <= u);
                    &self.types[self.transitions[i - 1].1]
                }
            }
            _ => match &self.footer { Some(r) => r.type_at(u), None => &self.types[0] },
        }
    }
    pub fn offset_at(&self, u: i64) -> i32 {
        self.type_at(u).utoff
    }
    pub fn all_offsets(&self) -> Vec<i32> {
        let mut v: Vec<i32> = self.types.iter().map(|t| t.utoff).collect();
        if let Some(r) = &self.footer { v.extend(r.offsets()); }
        v.sort();
        v.dedup();
        v
    }
    /// S(w) = { u : u + offset_at(u) = w }, ascending
    pub fn preimage(&self, w: i64) -> Vec<i64> {
        let mut v: Vec<i64> = self.all_offsets().into_iter().map(|o| w - o as i64).filter(|&u| u + self.offset_at(u) as i64 == w).collect();
        v.sort();
        v.dedup();
        v
    }
    /// every instant where the offset/type may change near `u` (file transitions and rule transitions)
    pub fn change_points_near(&self, u: i64) -> Vec<i64> {
        let mut v: Vec<i64> = self.transitions.iter().map(|t| t.0).collect();
        if let Some(r) = &self.footer {
            let y = cal::civil_from_days(u.div_euclid(86_400)).0;
            v.extend(r.instants_around(y));
        }
        v
    }
}

// ---------------------------------------------------------------------------------- TZ string I/O
fn fmt_hms(mut s: i32, force_sign: bool) -> String {
    let mut out = String::new();
    if s < 0 { out.push('-'); s = -s; } else if force_sign { out.push('+'); }
    let (h, m, sec) = (s / 3600, s / 60 % 60, s % 60);
    out += &h.to_string();
    if m != 0 || sec != 0 { out += &format!(":{m:02}"); }
    if sec != 0 { out += &format!(":{sec:02}"); }
    out
}
fn fmt_name(n: &str) -> String {
    if n.len() >= 3 && n.bytes().all(|b| b.is_ascii_alphabetic()) { n.to_string() } else { format!("<{n}>") }
}
fn fmt_day(d: Day) -> String {
    match d { Day::J1(n) => format!("J{n}"), Day::J0(n) => format!("{n}"), Day::Mwd(m, w, d) => format!("M{m}.{w}.{d}") }
}
impl Rule {
    /// POSIX TZ string; `explicit` controls whether default values (DST offset = std + 1 h,
    /// time = 02:00) are written out or omitted
    pub fn to_tz_string(&self, explicit: bool) -> String {
        match self {
            Rule::Fixed(t) => format!("{}{}", fmt_name(&t.abbr), fmt_hms(-t.utoff, false)),
            Rule::Alt { std, dst, start, start_time, end, end_time } => {
                let mut s = format!("{}{}{}", fmt_name(&std.abbr), fmt_hms(-std.utoff, false), fmt_name(&dst.abbr));
                if explicit || dst.utoff != std.utoff + 3600 { s += &fmt_hms(-dst.utoff, false); }
                s += &format!(",{}", fmt_day(*start));
                if explicit || *start_time != 7200 { s += &format!("/{}", fmt_hms(*start_time, false)); }
                s += &format!(",{}", fmt_day(*end));
                if explicit || *end_time != 7200 { s += &format!("/{}", fmt_hms(*end_time, false)); }
                s
            }
        }
    }
}

struct P<'a> { b: &'a [u8], i: usize }
impl P<'_> {
    fn peek(&self) -> Option<u8> { self.b.get(self.i).copied() }
    fn name(&mut self) -> Option<String> {
        if self.peek()? == b'<' {
            let end = self.b[self.i..].iter().position(|&c| c == b'>')? + self.i;
            let n = std::str::from_utf8(&self.b[self.i + 1..end]).ok()?.to_string();
            self.i = end + 1;
            Some(n)
        } else {
            let start = self.i;
            while self.peek().map(|c| c.is_ascii_alphabetic()).unwrap_or(false) { self.i += 1; }
            if self.i == start { return None; }
            Some(std::str::from_utf8(&self.b[start..self.i]).ok()?.to_string())
        }
    }
    fn int(&mut self) -> Option<i32> {
        let start = self.i;
        while self.peek().map(|c| c.is_ascii_digit()).unwrap_or(false) { self.i += 1; }
        if self.i == start { return None; }
        std::str::from_utf8(&self.b[start..self.i]).ok()?.parse().ok()
    }
    fn hms(&mut self, max_h: i32) -> Option<i32> {
        let mut sign = 1;
        match self.peek() { Some(b'+') => self.i += 1, Some(b'-') => { sign = -1; self.i += 1 } _ => {} }
        let h = self.int()?;
        let (mut m, mut s) = (0, 0);
        if self.peek() == Some(b':') { self.i += 1; m = self.int()?; if self.peek() == Some(b':') { self.i += 1; s = self.int()?; } }
        if h > max_h || m > 59 || s > 59 { return None; }
        Some(sign * (h * 3600 + m * 60 + s))
    }
    fn day(&mut self, max_h: i32) -> Option<(Day, i32)> {
        let d = match self.peek()? {
            b'M' => { self.i += 1; let m = self.int()?; self.lit(b'.')?; let w = self.int()?; self.lit(b'.')?; let d = self.int()?;
                if !(1..=12).contains(&m) || !(1..=5).contains(&w) || !(0..=6).contains(&d) { return None; } Day::Mwd(m as u8, w as u8, d as u8) }
            b'J' => { self.i += 1; let n = self.int()?; if !(1..=365).contains(&n) { return None; } Day::J1(n as u16) }
            _ => { let n = self.int()?; if !(0..=365).contains(&n) { return None; } Day::J0(n as u16) }
        };
        let t = if self.peek() == Some(b'/') { self.i += 1; self.hms(max_h)? } else { 7200 };
        Some((d, t))
    }
    fn lit(&mut self, c: u8) -> Option<()> { if self.peek()? == c { self.i += 1; Some(()) } else { None } }
}
/// independent POSIX TZ parser (`std offset [dst [offset] , start[/time] , end[/time]]`);
/// `extended`: RFC 8536 v3 rule times (-167..=167 h)
pub fn parse_tz_string(s: &str, extended: bool) -> Option<Rule> {
    let mut p = P { b: s.as_bytes(), i: 0 };
    let std_name = p.name()?;
    let std_off = -p.hms(24)?;
    if p.i == p.b.len() {
        return Some(Rule::Fixed(ZType { utoff: std_off, isdst: false, abbr: std_name }));
    }
    let dst_name = p.name()?;
    let dst_off = if p.peek()? == b',' { std_off + 3600 } else { -p.hms(24)? };
    p.lit(b',')?;
    let max_h = if extended { 167 } else { 24 };
    let (start, start_time) = p.day(max_h)?;
    p.lit(b',')?;
    let (end, end_time) = p.day(max_h)?;
    if p.i != p.b.len() { return None; }
    Some(Rule::Alt { std: ZType { utoff: std_off, isdst: false, abbr: std_name }, dst: ZType { utoff: dst_off, isdst: true, abbr: dst_name }, start, start_time, end, end_time })
}

// -------------------------------------------------------------------------------------- TZif I/O
#[derive(Clone, Copy, Debug, PartialEq, Eq, Serialize, Deserialize)]
pub enum Version { V1, V2, V3 }

/// indicator style for the isstd/isut arrays
#[derive(Clone, Copy, Debug, PartialEq, Eq, Serialize, Deserialize)]
pub enum Indicators { None, Wall, Std, Ut, StdOnly, UtZerosOnly }

fn block(m: &Model, time64: bool, ind: Indicators, transitions: &[(i64, usize)], extra_chars: usize, leaps: &[(i64, i32)]) -> Vec<u8> {
    // designation table: unique abbreviations, NUL-terminated
    let mut table: Vec<u8> = vec![];
    let mut index: Vec<u8> = vec![];
    for t in &m.types {
        let needle: Vec<u8> = t.abbr.bytes().chain([0]).collect();
        let pos = table.windows(needle.len()).position(|w| w == needle.as_slice());
        match pos {
            Some(p) => index.push(p as u8),
            None => { index.push(table.len() as u8); table.extend(&needle); }
        }
    }
    let mut out = vec![];
    for (t, _) in transitions {
        if time64 { out.extend(t.to_be_bytes()); } else { out.extend((*t as i32).to_be_bytes()); }
    }
    for (_, i) in transitions { out.push(*i as u8); }
    for (t, idx) in m.types.iter().zip(&index) {
        out.extend(t.utoff.to_be_bytes());
        out.push(t.isdst as u8);
        out.push(*idx);
    }
    out.extend(&table);
    out.extend(unused_designations(extra_chars));
    // leap-second records: (occurrence in leap time, total correction from then on)
    for (t, c) in leaps {
        if time64 { out.extend(t.to_be_bytes()); } else { out.extend((*t as i32).to_be_bytes()); }
        out.extend(c.to_be_bytes());
    }
    let n = m.types.len();
    match ind {
        Indicators::None => {}
        Indicators::Wall => { out.extend(vec![0u8; n]); out.extend(vec![0u8; n]); }
        Indicators::Std => { out.extend(vec![1u8; n]); out.extend(vec![0u8; n]); }
        Indicators::Ut => { out.extend(vec![1u8; n]); out.extend(vec![1u8; n]); }
        // RFC 8536: each of the two counts is independently zero or typecnt
        Indicators::StdOnly => { out.extend((0..n).map(|i| (i % 2) as u8)); }
        Indicators::UtZerosOnly => { out.extend(vec![0u8; n]); }
    }
    out
}
fn header(version: Version, isut: usize, isstd: usize, leap: usize, time: usize, typ: usize, chars: usize) -> Vec<u8> {
    let mut h = b"TZif".to_vec();
    h.push(match version { Version::V1 => 0, Version::V2 => b'2', Version::V3 => b'3' });
    h.extend([0u8; 15]);
    for c in [isut, isstd, leap, time, typ, chars] { h.extend((c as u32).to_be_bytes()); }
    h
}
/// `n` bytes of well-formed but unused designations ("UNU\0UNU\0...")
fn unused_designations(n: usize) -> Vec<u8> {
    let mut v = vec![];
    while v.len() + 4 <= n { v.extend(b"UNU\0"); }
    while v.len() < n { v.push(0); }
    v
}
fn chars_len(m: &Model) -> usize {
    let mut table: Vec<u8> = vec![];
    for t in &m.types {
        let needle: Vec<u8> = t.abbr.bytes().chain([0]).collect();
        if !table.windows(needle.len()).any(|w| w == needle.as_slice()) { table.extend(&needle); }
    }
    table.len()
}
/// a conforming TZif writer. v1: 32-bit block only (transitions must fit). v2/v3: 32-bit block with
/// the transitions that fit in 32 bits, 64-bit block, footer.
pub fn write_tzif(m: &Model, version: Version, ind: Indicators, explicit_footer: bool) -> Vec<u8> {
    write_tzif_ext(m, version, ind, explicit_footer, 0)
}
/// as `write_tzif`, with `extra_chars` bytes of unused designations appended to the table
pub fn write_tzif_ext(m: &Model, version: Version, ind: Indicators, explicit_footer: bool, extra_chars: usize) -> Vec<u8> {
    write_tzif_leap(m, version, ind, explicit_footer, extra_chars, &[])
}
/// Unix time -> the leap-time scale of a file with these leap-second records (the correction of the last
/// record at or before it). Callers keep transitions away from the records, so the choice is unambiguous.
pub fn to_leap_time(t: i64, leaps: &[(i64, i32)]) -> i64 {
    let mut c = 0i64;
    for (l, corr) in leaps {
        if t.saturating_add(*corr as i64) >= *l { c = *corr as i64; } else { break; }
    }
    t.saturating_add(c)
}
/// as `write_tzif_ext`, with leap-second records; the model's transition times are Unix times and are
/// written in the leap-time scale
pub fn write_tzif_leap(m: &Model, version: Version, ind: Indicators, explicit_footer: bool, extra_chars: usize, leaps: &[(i64, i32)]) -> Vec<u8> {
    let n = m.types.len();
    let all: Vec<(i64, usize)> = m.transitions.iter().map(|t| (to_leap_time(t.0, leaps), t.1)).collect();
    let leaps32: Vec<(i64, i32)> = leaps.iter().copied().filter(|l| l.0 <= i32::MAX as i64).collect();
    // (isutcnt, isstdcnt)
    let (ucount, scount) = match ind {
        Indicators::None => (0, 0),
        Indicators::StdOnly => (0, n),
        Indicators::UtZerosOnly => (n, 0),
        _ => (n, n),
    };
    let fits32: Vec<(i64, usize)> = all.iter().copied().filter(|t| t.0 >= i32::MIN as i64 && t.0 <= i32::MAX as i64).collect();
    let mut out = header(version, ucount, scount, leaps32.len(), fits32.len(), n, chars_len(m) + extra_chars);
    out.extend(block(m, false, ind, &fits32, extra_chars, &leaps32));
    if version != Version::V1 {
        out.extend(header(version, ucount, scount, leaps.len(), all.len(), n, chars_len(m) + extra_chars));
        out.extend(block(m, true, ind, &all, extra_chars, leaps));
        out.push(b'\n');
        if let Some(r) = &m.footer { out.extend(r.to_tz_string(explicit_footer).bytes()); }
        out.push(b'\n');
    }
    out
}

/// independent TZif reader (RFC 8536). `None` for anything malformed or with leap-second records.
pub fn read_tzif(b: &[u8]) -> Option<Model> {
    fn hdr(b: &[u8]) -> Option<(u8, [usize; 6])> {
        if b.len() < 44 || &b[..4] != b"TZif" { return None; }
        let mut c = [0usize; 6];
        for (i, c) in c.iter_mut().enumerate() { *c = u32::from_be_bytes(b[20 + 4 * i..24 + 4 * i].try_into().ok()?) as usize; }
        Some((b[4], c))
    }
    let (ver, c1) = hdr(b)?;
    let size = |c: &[usize; 6], ts: usize| c[3] * ts + c[3] + c[4] * 6 + c[5] + c[2] * (ts + 4) + c[1] + c[0];
    let (ver_n, data, counts, ts, rest) = if ver == 0 {
        (1, &b[44..], c1, 4usize, None)
    } else {
        let skip = 44 + size(&c1, 4);
        let b2 = b.get(skip..)?;
        let (_, c2) = hdr(b2)?;
        let end = 44 + size(&c2, 8);
        (if ver == b'3' { 3 } else { 2 }, b2.get(44..)?, c2, 8usize, Some(b2.get(end..)?))
    };
    let [_isut, _isstd, leap, timecnt, typecnt, charcnt] = counts;
    if leap != 0 || typecnt == 0 { return None; }
    if data.len() < size(&counts, ts) { return None; }
    let mut o = 0;
    let mut times = vec![];
    for i in 0..timecnt {
        let s = &data[o + i * ts..o + (i + 1) * ts];
        times.push(if ts == 4 { i32::from_be_bytes(s.try_into().ok()?) as i64 } else { i64::from_be_bytes(s.try_into().ok()?) });
    }
    o += timecnt * ts;
    let idx: Vec<usize> = data[o..o + timecnt].iter().map(|&x| x as usize).collect();
    o += timecnt;
    let tt = &data[o..o + typecnt * 6];
    o += typecnt * 6;
    let chars = &data[o..o + charcnt];
    let mut types = vec![];
    for k in 0..typecnt {
        let r = &tt[k * 6..k * 6 + 6];
        let ci = r[5] as usize;
        let end = chars.get(ci..)?.iter().position(|&c| c == 0)? + ci;
        types.push(ZType { utoff: i32::from_be_bytes(r[..4].try_into().ok()?), isdst: r[4] != 0, abbr: String::from_utf8(chars[ci..end].to_vec()).ok()? });
    }
    if idx.iter().any(|&i| i >= typecnt) { return None; }
    let footer = match rest {
        Some(r) => {
            let s = std::str::from_utf8(r).ok()?;
            let s = s.strip_prefix('\n')?.strip_suffix('\n')?;
            if s.is_empty() { None } else { Some(parse_tz_string(s, ver_n == 3)?) }
        }
        None => None,
    };
    Some(Model { types, transitions: times.into_iter().zip(idx).collect(), footer })
}
