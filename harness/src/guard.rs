//! Panic monitor: every call into chrono goes through `guard`, a panic is a value.

use std::cell::RefCell;
use std::panic::{catch_unwind, AssertUnwindSafe};
use std::sync::Once;

thread_local! {
    static LAST_PANIC: RefCell<Option<String>> = const { RefCell::new(None) };
    static DEPTH: std::cell::Cell<u32> = const { std::cell::Cell::new(0) };
}

static HOOK: Once = Once::new();

pub fn install_hook() {
    HOOK.call_once(|| {
        std::panic::set_hook(Box::new(|info| {
            let msg = if let Some(s) = info.payload().downcast_ref::<&str>() {
                s.to_string()
            } else if let Some(s) = info.payload().downcast_ref::<String>() {
                s.clone()
            } else {
                "<non-string panic>".to_string()
            };
            let loc = info.location().map(|l| format!("{}:{}", l.file(), l.line())).unwrap_or_default();
            if DEPTH.with(|d| d.get()) == 0 {
                eprintln!("harness panic outside any guard: {msg} @ {loc}");
            }
            LAST_PANIC.with(|p| *p.borrow_mut() = Some(format!("{msg} @ {loc}")));
        }));
    });
}

/// Run `f`; a panic becomes `Err(message @ location)`.
pub fn guard<T>(f: impl FnOnce() -> T) -> Result<T, String> {
    install_hook();
    DEPTH.with(|d| d.set(d.get() + 1));
    let r = catch_unwind(AssertUnwindSafe(f));
    DEPTH.with(|d| d.set(d.get() - 1));
    match r {
        Ok(v) => Ok(v),
        Err(_) => Err(LAST_PANIC.with(|p| p.borrow_mut().take()).unwrap_or_else(|| "panic".into())),
    }
}

/// Run a fallible-by-value operation: a panic is a violation message.
pub fn call<T>(what: &str, f: impl FnOnce() -> T) -> Result<T, String> {
    guard(f).map_err(|m| format!("PANIC in {what}: {m}"))
}

/// The operation is documented to panic here.
pub fn expect_panic<T: std::fmt::Debug>(what: &str, f: impl FnOnce() -> T) -> Result<(), String> {
    match guard(f) {
        Err(_) => Ok(()),
        Ok(v) => Err(format!("{what}: expected a panic (documented), got {v:?}")),
    }
}

/// Whole-check wrapper: a panic that escaped the per-call guards (harness or chrono) is a failure.
pub fn guarded_check(f: impl FnOnce() -> Result<(), String>) -> Result<(), String> {
    match guard(f) {
        Ok(r) => r,
        Err(m) => Err(format!("PANIC (unguarded) {m}")),
    }
}
