#!/bin/bash
# usage: eval_seed.sh <PROP> <VARIANT> [extra check ids...]
# 1. confirm in the scratch worktree: suite passes with the patch, demo fails with it, demo passes without
# 2. apply to /repo, run the property's quick check (and extra ones), undo
P=$1; V=$2; shift 2; EXTRA="$@"
WT=/tmp/wt/$P-tree; OUT=/tmp/wt/$P-out/$V
FEAT=""; grep -q "__verif" $OUT/demo.rs && FEAT="--features __verif"; grep -qE "serde_json|bincode" $OUT/demo.rs && FEAT="--features serde"
cd $WT || exit 9
git checkout -q -- . ; rm -f tests/seeded_demo.rs
cp $OUT/demo.rs tests/seeded_demo.rs
clean=$(cargo test --offline $FEAT --test seeded_demo 2>&1 | grep -E "^test result" | tail -1)
git apply $OUT/patch.diff || { echo "PATCH DOES NOT APPLY"; exit 8; }
withp=$(cargo test --offline $FEAT --test seeded_demo 2>&1 | grep -E "^test result" | tail -1)
rm -f tests/seeded_demo.rs
suite=$(cargo test --workspace --no-fail-fast --offline 2>&1 | grep -E "^test result" | awk '{f+=$6; p+=$4} END {print "passed="p" failed="f}')
git checkout -q -- .
echo "[$P/$V] demo clean: $clean"
echo "[$P/$V] demo patched: $withp"
echo "[$P/$V] suite patched: $suite"
cd /verif
git -C /repo apply $OUT/patch.diff || { echo "cannot apply to /repo"; exit 7; }
for c in $P $EXTRA; do
  out=$(./check $c --tier quick 2>/dev/null); rc=$?
  echo "[$P/$V] check $c rc=$rc $(echo "$out" | grep -E "^FAIL" | head -2 | cut -c1-300)"
done
git -C /repo checkout -q -- .
