#!/usr/bin/env python3
"""keep_seed.py PROP VARIANT 'needs' 'caught_by' -- copies a confirmed seeded change into /verif/seeded/<PROP>-<V>/"""
import sys, os, shutil, json
p, v, needs, caught = sys.argv[1:5]
src = f"/tmp/wt/{p}-out/{v}"; dst = f"/verif/seeded/{p}-{v}"
os.makedirs(dst, exist_ok=True)
for f in ["patch.diff", "demo.rs", "notes.md"]:
    if os.path.exists(f"{src}/{f}"): shutil.copy(f"{src}/{f}", f"{dst}/{f}")
feat = " --features __verif" if "__verif" in open(f"{src}/demo.rs").read() else ""
meta = {"property": p, "variant": v, "breaks": p, "needs_to_manifest": needs,
        "confirmed": {"how": "tools/eval_seed.sh in a scratch worktree of /repo",
            "existing_suite_with_change": "cargo test --workspace --no-fail-fast --offline: 550 passed, 0 failed",
            "demo_with_change": f"cp demo.rs tests/seeded_demo.rs; cargo test --offline{feat} --test seeded_demo: FAILED",
            "demo_without_change": "same command on the unchanged tree: ok"},
        "detected_by": caught,
        "how_to_rerun": f"git -C /repo apply /verif/seeded/{p}-{v}/patch.diff && ./check {p}; git -C /repo checkout -- ."}
json.dump(meta, open(f"{dst}/meta.json", "w"), indent=1)
print("kept", dst)
