#!/bin/bash
# usage: eval_round.sh "<variants>" "<props>" [extra checks for every seed...]
# Development aid: for each property P (in parallel, one worker per property) and variant V, confirm the
# seeded change /tmp/wt/P-out/V in the scratch worktree /tmp/wt/P-tree (demo passes without / fails with
# the change, pinned suite passes with it), then build a scratch copy of the harness against that worktree
# and run P's quick check (and the extra ones). /repo, /verif/harness and /verif/evidence are not touched.
VARS="$1"; PROPS="$2"; shift 2; EXTRA="$@"
V="$(cd "$(dirname "$0")/.." && pwd)"; S=/tmp/evalround; mkdir -p $S
one() {
  P=$1; WT=/tmp/wt/$P-tree
  rsync -a --delete --exclude target $V/harness/ $S/h-$P/
  sed -i "s#path = \"/repo\"#path = \"$WT\"#" $S/h-$P/Cargo.toml
  printf '[net]\noffline = true\n[build]\ntarget-dir = "%s/target-%s"\n' $S $P > $S/h-$P/.cargo/config.toml
  mkdir -p $S/root-$P; rm -rf $S/root-$P/*; cp -r $V/known_findings.json $V/replays $S/root-$P/
  for X in $VARS; do
    OUT=/tmp/wt/$P-out/$X; [ -f $OUT/patch.diff ] || { echo "[$P/$X] no patch"; continue; }
    FEAT=""; grep -q "__verif" $OUT/demo.rs && FEAT="--features __verif"; grep -qE "serde_json|bincode" $OUT/demo.rs && FEAT="--features serde"
    cd $WT; git checkout -q -- . ; rm -f tests/seeded_demo.rs; cp $OUT/demo.rs tests/seeded_demo.rs
    clean=$(cargo test --offline $FEAT --test seeded_demo 2>&1 | grep -E "^test result" | tail -1 | cut -c1-40)
    git apply $OUT/patch.diff || { echo "[$P/$X] PATCH DOES NOT APPLY"; continue; }
    withp=$(cargo test --offline $FEAT --test seeded_demo 2>&1 | grep -E "^test result" | tail -1 | cut -c1-44)
    rm -f tests/seeded_demo.rs
    suite=$(cargo test --workspace --no-fail-fast --offline 2>&1 | grep -E "^test result" | awk '{f+=$6; p+=$4} END {print "passed="p" failed="f}')
    line="[$P/$X] demo clean: $clean | patched: $withp | suite: $suite"
    (cd $S/h-$P && cargo build --offline --profile verif --quiet 2>/dev/null) || { echo "$line | harness does not build"; git checkout -q -- .; continue; }
    for c in $P $EXTRA; do
      out=$($S/target-$P/verif/pbt run $c --tier quick --seed ${VERIF_SEED:-0} --root $S/root-$P 2>/dev/null); rc=$?
      line="$line | check $c rc=$rc $(echo "$out" | grep -E '^FAIL' | head -1 | cut -c1-260)"
    done
    echo "$line"
    git checkout -q -- .
  done
}
for P in $PROPS; do one $P & done
wait
