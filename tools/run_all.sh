#!/bin/bash
# run every quick check with a given seed; print one line per property
seed=${1:-0}; tier=${2:-quick}
cd "$(dirname "$0")/.."
for i in 01 02 03 04 05 06 07 08 09 10 11 12 13 14 15 16 17 18 19 20; do
  out=$(VERIF_SEED=$seed ./check C$i --tier $tier 2>/dev/null); rc=$?
  echo "rc=$rc $(echo "$out" | grep -E '^C[0-9]+ tier' | tail -1) $(echo "$out" | grep -c KNOWN-FINDING) known $(echo "$out" | grep VIOLATION | head -2 | tr '\n' ' ')"
done
