#!/usr/bin/env python3
"""Regenerates the table of seeded changes in DESIGN.md section 9 from seeded/*/meta.json."""
import json, glob, os, re
root = os.path.dirname(os.path.dirname(os.path.abspath(__file__)))
rows = []
for f in sorted(glob.glob(f"{root}/seeded/*/meta.json")):
    m = json.load(open(f))
    rows.append(f"| {m['property']}-{m['variant']} | {m['needs_to_manifest']} | {m['detected_by']} |")
table = "| Seeded change | What it needs in order to manifest | Detected by |\n|---|---|---|\n" + "\n".join(rows) + "\n"
p = f"{root}/DESIGN.md"
s = open(p).read()
s2, n = re.subn(r"\| Seeded change \|[^\n]*\n\|---\|---\|---\|\n(?:\|[^\n]*\n)+", lambda _: table, s)
assert n == 1, n
open(p, "w").write(s2)
print(len(rows), "rows")
