#!/usr/bin/env python3
"""Regenerates /verif/MANIFEST.json from the table below (kept valid at all times)."""
import json, os
ROOT = os.path.dirname(os.path.dirname(os.path.abspath(__file__)))

# id -> (technique, level text, level note, design ref)
CHECKS = {
 "C01": ("exhaustive enumeration of the date domain and constructor argument grids + edge-biased proptest tuples, differential against a table-free Gregorian reference (R-cal)",
         "Every one of the 191,491,529 representable dates is enumerated in chronological order on every run and all forms, the four constructors and the successor relation are compared with an independent calendar; constructor argument grids (years MIN-2..MAX+2 x month 0..15 x day 0..35, ordinal 0..370, week 0..55 x 7) are enumerated completely, the full-i32/u32 argument space is sampled with edge bias; thorough adds all 2^32 day numbers. Exhaustive for the date domain, sampled for extreme arguments.",
         "Trusted base: the ~150-line reference calendar in harness/src/refmodel/cal.rs (self-checked against fixed anchors) and rustc integer arithmetic.",
         "DESIGN.md section 3 C01"),
 "C02": ("proptest (edge-biased i64 counts per unit and u32 nanosecond fields; reverse direction from calendar fields) differential against floor arithmetic on i128 instants + R-cal",
         "from_timestamp / _millis / _micros / _nanos and the zone-generic wrappers are compared, case by case, with floor division on an i128 instant and an independent calendar (fields, acceptance, read-back, timestamp_nanos_opt absence exactly outside 64 bits); the reverse direction builds date-times from calendar fields and checks every accessor and the SystemTime round trip. Millions of cases per run, biased to range ends, the i64-nanosecond window, negative sub-second counts and leap nanosecond fields.",
         "Trusted base: R-cal / R-inst (harness/src/refmodel). SystemTime values are built independently with UNIX_EPOCH +/- Duration.",
         "DESIGN.md section 3 C02"),
 "C03": ("proptest (date-times biased to range ends/year ends, durations aimed exactly at MAX-a / MIN-a, day counts to u64::MAX, iterator traversals near the range ends) differential against i128 instant arithmetic; model-based iterator histories (next/next_back/nth/nth_back/skip/take/rev/len) against a cursor model",
         "checked_add/sub_signed, signed_duration_since, operators (incl. std Duration and assign forms) on NaiveDateTime, NaiveDate and DateTime<FixedOffset>, checked_add/sub_days and the day/week iterators are compared with exact i128 arithmetic on instants and day numbers; failure is demanded exactly when the exact result is unrepresentable and operators must panic exactly then. Sampled with boundary-aimed generators, not exhaustive.",
         "Trusted base: R-cal / R-inst; operand values are built through constructors that C01/C07 verify.",
         "DESIGN.md section 3 C03"),
 "C04": ("proptest over (UTC date-time, offset at one-second resolution, operation, argument) biased to the range ends/headroom, differential against a wall-clock model on integer day/second pairs",
         "Construction from UTC and from wall clock, naive_local (documented panic exactly outside the range), every Datelike/Timelike accessor, Display/Debug, zone conversion, equality/order/hash on the instant (also across Utc/FixedOffset), all eleven with_* replacements, day/month stepping, with_time and with_ymd_and_hms are compared with a model that applies the operation to the wall-clock reading and accepts iff the new instant lies in [MIN_UTC, MAX_UTC]; no returned value may lie outside that interval. One thin band (an edit that would create a new wall date in the headroom) accepts None or the exact value, as DESIGN.md explains.",
         "Trusted base: R-cal and the 10-line shift model in harness/src/props/c04.rs. Offsets are whole seconds so the nanosecond field is never touched by the model.",
         "DESIGN.md section 3 C04"),
 "C05": ("proptest over structured zone models written by a reference TZif writer (v1/v2/v3, 0-40 spaced or tight transitions, fixed/alternate footers), over POSIX TZ rules (all day forms, both hemispheres, negative DST, extended times) and over the system zoneinfo files read by an independent reader; probes dense around every transition; differential against the RFC 8536 step-function model R-zone; child-process sub-check driving every public Local route (TZ = generated rule or system zone) against R-zone",
         "For every zone the offset reported at an instant must be the one the zone data prescribe; instant -> wall clock -> back must contain the instant (Single, or two distinct candidates earliest first); wall times occurring once/twice/never must give Single/Ambiguous(earliest, latest)/None (the three boundary seconds the statement exempts are only checked for the round trip). Driven through the guarded read-only hook (zone from bytes / TZ string, the two lookups); every public Local route (lookups, deprecated date routes, Date<Local> + time of day, arrival by arithmetic, text / serde round trips) is driven in child processes by the local_routes sub-check, and by C18.",
         "Trusted base: R-zone (harness/src/refmodel/zone.rs: offset_at, rule evaluator, preimage, TZif writer/reader, TZ parser), validated at development time against CPython's zoneinfo on all 600 system zones (130,268 offset and fold/gap comparisons, 0 mismatches; tools/validate_zone_model.py). Domain: offsets inside (-24 h, 24 h); consecutive transitions far enough apart that their skipped/repeated wall-clock intervals do not overlap; rule transitions more than a day inside the year with the same start/end order every year; rules whose daylight time lasts less than two days (down to zero length) are judged in the offset direction, and in the round-trip direction unless known finding F22 (wall-clock lookup under such rules, re-confirmed by a probe on every run) is active.",
         "DESIGN.md section 3 C05"),
 "C06": ("proptest (edge-biased i128 model values, limit-straddling operand pairs) differential against exact i128 arithmetic, range invariant on every returned value",
         "Every constructor, accessor, checked/operator arithmetic form, Sum, std conversion and the Display text of TimeDelta is compared with exact i128 nanosecond arithmetic on millions of generated cases per run, with generators that aim operands at the range limits, at unit-constructor limits and at products that straddle the limit; every returned duration is re-read and must lie in the closed range. Sampled, not exhaustive.",
         "Trusted base: i128 arithmetic in the harness (harness/src/props/c06.rs); TimeDelta values are observed only through num_seconds/subsec_nanos, whose mutual consistency is itself checked.",
         "DESIGN.md section 3 C06"),
 "C07": ("proptest over times incl. leap representations on any second and durations aimed at the leap-second edges, differential against a one-leap-second timeline model (R-leap) pinned by the documented examples",
         "The validity predicate of all five constructors, accessors and single-field replacement, overflowing_add/sub_signed with day carry, wrapping operators, signed_duration_since (antisymmetry), offset shifts and NaiveDateTime arithmetic with leap operands are compared with an explicit timeline model in which the operand's leap second is the only one; the model itself is asserted against the documented examples at start-up.",
         "Trusted base: R-leap model in harness/src/props/c07.rs (~40 lines), validated against the fourteen documented examples on every run.",
         "DESIGN.md section 3 C07"),
 "C08": ("proptest + exhaustive slices (all dates within 10 days of the range ends x 7 week starts; a 400-year cycle plus the range ends x all (month, weekday, n)) differential against R-cal",
         "Month stepping with day clamp (u32 counts, operators), all seven date-field replacements and four time-field replacements on NaiveDate/NaiveDateTime over the full i32/u32 argument range, NaiveWeek bounds incl. the panicking forms, n-th weekday of a month by scanning, years_since on dates and zone-aware values, quarter, year_ce, num_days_in_month and Month::num_days are compared with the reference calendar.",
         "Trusted base: R-cal. For years outside the date range Month::num_days may answer None or the calendar-correct length (documentation and behaviour differ; the statement only asks for calendar agreement).",
         "DESIGN.md section 3 C08"),
 "C09": ("proptest over values biased to the years/fractions/leap seconds the text form branches on + exhaustive offsets/weekdays/months (thorough: all 191 M dates), round trip print -> parse plus exact shape against reference renderings",
         "Display and Debug of NaiveDate, NaiveTime, NaiveDateTime, DateTime<Utc>, DateTime<FixedOffset> (whole-minute offsets), FixedOffset, Weekday and Month are compared with reference renderings built from R-cal fields (sign rule, fewest of 0/3/6/9 fraction digits, second 60) and parsed back with str::parse to the identical value. Known finding F14 (NaiveDateTime Display form) is routed around and re-confirmed by a probe on every run.",
         "Trusted base: reference renderer harness/src/refmodel/fmt.rs (30 lines) and R-cal. Domain = wall clocks inside the nominal date range (the property's quantifier); headroom wall clocks are an observation in DESIGN.md.",
         "DESIGN.md section 3 C09"),
 "C10": ("proptest: writer over (wall clock year 0-9999, whole-minute offset, 5 precisions, use_z); reader over grammar-derived strings with all documented latitude, field-level and character-level near-miss mutations, regex-shaped and arbitrary Unicode, differential against an independent hand-written RFC 3339 recognizer/evaluator",
         "Writer: the output must equal a reference rendering, be accepted by the independent recognizer with identical fields (fraction truncated, Z only on request at offset 0) and parse back to the same instant and offset. Reader: parse_from_rfc3339(s).is_ok() must equal recognizer acceptance for every generated string (about a quarter accepted, three quarters rejected, most of them one edit or one out-of-range field away from a valid string), and accepted strings must evaluate to exactly the denoted value.",
         "Trusted base: harness/src/refmodel/rfc3339.rs (90 lines, written from the ABNF and the documented latitude) and R-cal. Second 60 is accepted on any minute, as the documented reader does.",
         "DESIGN.md section 3 C10"),
 "C11": ("proptest: writer over (wall clock year 0-9999, whole-minute offset); reader over strings generated from the documented grammar with the value they denote (all optional parts, obsolete year/zone forms, comments, Unicode white-space runs), a contradicting-weekday twin, mutations and arbitrary text; oracle = generator-denoted value + independent RFC 2822 reference reader",
         "Writer output must equal the reference rendering (correct weekday) and parse back to the same whole-second instant (second 60 preserved) and offset. Every grammar-generated string must be accepted with exactly the denoted value, both by parse_from_rfc2822 and by the Fixed::RFC2822 format item, and its twin with a contradicting weekday must be rejected. For mutated/arbitrary text only: no panic, and agreement with the reference reader when both accept (the statement claims nothing about rejection there).",
         "Trusted base: harness/src/refmodel/rfc2822.rs (independent reader written from the grammar comment) and R-cal; the generator's intended value is cross-checked against the reference reader on every case.",
         "DESIGN.md section 3 C11"),
 "C12": ("exhaustive sweep of the documented specifier table x 4 padding modifiers over a fixed value list (first/last 10 days of years covering all 14 year types, signed and 5-6 digit years, leap seconds, offsets with seconds) + proptest random format strings incl. must-fail shapes and multi-byte literals, differential against an independent reference strftime (R-fmt); every other public rendering route (item lists borrowed/owned, DelayedFormat constructors, write_to, deprecated free functions) compared with format()",
         "Every documented specifier with every modifier is rendered for thousands of values of all four formattable kinds (date, time, naive date-time, zone-aware incl. headroom wall clocks) and compared character by character with a reference renderer written from the documentation table; random format strings built from specifiers, literals, white space, %% and malformed specifiers must either render exactly the reference text or fail exactly when the reference says so (unknown/malformed specifier, modifier on a non-numeric or composite specifier, field the value lacks).",
         "Trusted base: harness/src/refmodel/strftime.rs (tokenizer + renderer, ~300 lines) and R-cal. Not asserted (documentation silent): %y/%g for negative years, %Z for offsets with seconds, %#z when formatting; the sign/padding interplay follows the stated assumption in the evidence.",
         "DESIGN.md section 3 C12"),
 "C13": ("proptest over a generated grammar of unambiguous format strings (calendar / ordinal / ISO week / Sunday- and Monday-week dates, every year spelling, all padding modifiers, 24h and 12h clocks, every fraction form, zones, %s, composites) x values the format can express, with case and white-space perturbation and parse_and_remainder suffixes; round-trip oracle with precision truncation derived from the reference tokenizer",
         "For every generated (format, value) pair the text produced by format() is parsed back with parse_from_str / parse_and_remainder of the matching type and must equal the value truncated to what the format prints (minutes, seconds, 3/6/9 fraction digits; leap second kept iff seconds are printed); letter case of names and am/pm is flipped and white space widened at random. %#z is exercised read-only, %::z/%:::z/%Z print-only (no panic).",
         "Trusted base: the format family generator (harness/src/props/c13.rs) only emits formats whose fields determine the value (separators between variable-width numbers, no letters in separators); the expected precision comes from harness/src/refmodel/strftime.rs's tokenizer.",
         "DESIGN.md section 3 C13"),
 "C14": ("exhaustive enumeration of all 16,384 subsets of the 14 date fields for a list of dates + proptest over subsets of all 21 fields derived from a real value (incl. range-end values), with 1-3 fields corrupted or drawn independently; soundness/completeness/error-class oracle from R-cal field derivation; proptest over a custom one-step TimeZone (skipped / repeated wall clocks) for to_datetime_with_timezone",
         "Setters must accept exactly the documented ranges (and equal-value idempotence); every Ok result of to_naive_date, to_naive_time, to_naive_datetime_with_offset, to_datetime and to_datetime_with_timezone must agree with every supplied field (second 60 <-> leap second, timestamp equal or +1 on a leap second); uncorrupted, determinate, sufficient sets must resolve to exactly the value, uncorrupted insufficient sets must give NOT_ENOUGH, sufficient contradictory sets IMPOSSIBLE or OUT_OF_RANGE; nothing may panic.",
         "Trusted base: field derivation and sufficiency rules in harness/src/props/c14.rs (from the documented list of sufficient combinations) and R-cal. Not judged (statement silent): century/two-digit fields on negative years, indeterminate year groups, a leap-second value without its second field, a timestamp with a missing non-zero second.",
         "DESIGN.md section 3 C14"),
 "C15": ("proptest API sweep over 96 public non-deprecated fallible entry points with receivers at both range ends (incl. headroom wall clocks) and i64 arguments biased to integer extremes and field limits; arbitrary/near-valid/damaged text through every parser with strict and lenient format items; deterministic item-count bound on StrftimeItems; panic monitor (catch_unwind) + invariant predicates on every returned value; thorough tier adds libFuzzer targets",
         "Every listed operation must return normally for every generated argument tuple, and every value it returns must satisfy its type's invariants as observable through the public API (date equals the date of its own fields and lies in [MIN, MAX], time fields in range, DateTime within [MIN_UTC, MAX_UTC], TimeDelta in its closed range). Iterating StrftimeItems::new / new_lenient over any format string must stop within a bound proportional to its length (deterministic, no timer) and report Item::Error exactly for invalid strings. The monitor also wraps every chrono call of the other nineteen checks, so their generated inputs count here as well.",
         "Trusted base: harness/src/guard.rs (catch_unwind + silent hook) and the invariant predicates in harness/src/props/c15.rs; the harness and the fuzz targets are built with debug assertions and overflow checks on. Hangs other than the item-stream bound surface only as the driver's watchdog (exit 2).",
         "DESIGN.md section 3 C15"),
 "C16": ("proptest: model-driven TZif files (v1/v2/v3, 0-2000 transitions, extreme 64-bit times) and grammar-driven TZ strings that must be accepted with an identical structural dump; twenty classes of structured mutations and fifteen TZ-string defects that must be rejected; byte-flipped/header-randomised/arbitrary bytes; exhaustive strict prefixes of sampled files; every system zoneinfo file; panic monitor + counting allocator; files with leap-second records and rule-aligned last transitions that must be accepted and read back exactly",
         "Accepted inputs: the hook's structural dump (transition times/type indices, types, footer rule) must equal exactly what the reference writer wrote, and for system files what the independent reader reads. Rejected inputs: each mutation introduces one defect by construction (truncation, magic/version, count mismatch or extreme, unsorted/duplicate transitions, index out of bounds, unterminated abbreviation, dst byte, forbidden indicator pair, five footer defects, utoff = i32::MIN, trailing byte) and must yield Err. All inputs: no panic, peak heap <= 16 x input + 64 KiB (per-thread counting global allocator), and every accepted zone answers both lookups at i64 extremes, at chrono's MIN/MAX and around its transitions without panicking. Thorough tier adds libFuzzer targets tzif/tzstring with the same oracle.",
         "Trusted base: reference TZif writer/reader and TZ grammar in harness/src/refmodel/zone.rs (validated against CPython's zoneinfo), the counting allocator in harness/src/alloc_track.rs. Hangs would surface as the driver's watchdog (exit 2), not as violations.",
         "DESIGN.md section 3 C16"),
 "C17": ("proptest over stamps inside/outside the i64-nanosecond window, log-uniform/tie-making/invalid spans, offsets and digit counts, differential against floor/ceil arithmetic on i128 wall-clock stamps; DateTime route vs NaiveDateTime route differential on leap readings",
         "duration_trunc/round/round_up on NaiveDateTime and DateTime<FixedOffset> must return exactly floor/ceil/nearest-ties-up multiples of the span on the wall-clock stamp with the offset kept, be idempotent while the result stays inside the window, and report DurationExceedsLimit / TimestampExceedsLimit exactly for the three stated causes, never panicking (incl. headroom wall clocks); round_subsecs/trunc_subsecs on NaiveTime, NaiveDateTime and DateTime for all digit counts with carry. Leap-second operands: no panic, valid values, sub-second idempotence only.",
         "Trusted base: i128 div_euclid arithmetic (harness/src/props/c17.rs).",
         "DESIGN.md section 3 C17"),
 "C18": ("stateful generation: histories = vec(op) over set/unset TZ (absolute path, :path, zone name, :name, POSIX rule, empty, garbage, missing file), waits on both sides of 1 s, conversions in both directions on the long-lived thread and on fresh threads (free sequences + scenario templates); each history runs in its own child process; an interpreter with the R-zone models of every source is the oracle; children run in a directory of decoy files so that relative names can only resolve in the zoneinfo directories",
         "Every conversion in every history must be answered entirely by one zone: the zone the environment names now when the conversion runs on a new thread or at least 1 s (+60 ms margin) after the last change, otherwise any zone that was in force during the last second. Custom zone files have pairwise different offsets before/after a common transition so a single answer identifies the zone; wall-clock probes lie inside their gaps/folds so a mixed answer is visible. The wall clock is only a stimulus: inside the window both answers are accepted, so jitter cannot raise an alarm. The whole history shrinks as one value (bounded shrink budget because each run costs real sleeps).",
         "Trusted base: R-zone and the 60-line interpreter in harness/src/props/c18.rs. Sandbox limit: /etc/localtime is Etc/UTC, so the system-zone and UTC fallbacks coincide. Races between set_var and a concurrent conversion are outside this technique (and outside safe Rust's contract for set_var).",
         "DESIGN.md section 3 C18"),
 "C19": ("exhaustive enumeration (7 weekdays, 12 months, 128x128 sets, 128x7x128 iteration interleavings, all name/letter-case masks, all integers in +/-70000 and 2^k neighbourhoods, Month::num_days over every supported year x 12 months) + proptest integers/strings/from_array lists of 0..=24 entries, against modular arithmetic, R-cal and a bit/deque set model",
         "The finite part (cycles, numbering, all pairs of weekday sets, every front/back interleaving of every set from every start day, every letter-case variant, prefix and one-letter extension of every name) is enumerated completely on every run; numeric conversions are checked for every FromPrimitive entry point on enumerated neighbourhoods and random i64/u64 values biased to values congruent to valid numbers modulo 2^8/2^16/2^32; strings by mutation and arbitrary Unicode including case-folding look-alikes.",
         "Trusted base: literal name tables and modular arithmetic in harness/src/props/c19.rs.",
         "DESIGN.md section 3 C19"),
 "C20": ("proptest over values of every serializable type through serde_json (self-describing) and bincode (positional); raw i64/u64 integers fed to each of the sixteen ts_* modules through serde's primitive deserializers and JSON numbers; round-trip + R-inst differential oracle",
         "Every serializable type must come back equal from both formats (zone-aware: same instant, same offset when it is a whole minute); each ts_* module (seconds..nanoseconds, plain and option, UTC and naive) must write exactly floor(instant/unit) and read back the truncated instant; raw integers (edge-biased to each module's representable ends and to u64 > i64::MAX) must be accepted exactly when the instant is representable and otherwise give an error, never a panic. Known findings F15 (offsets with seconds) and F18 (headroom wall clocks) are routed around and re-confirmed by probes.",
         "Trusted base: R-inst; derive-generated wrapper structs with #[serde(with = ...)]; serde_json 1 and bincode 1.3 as the two data formats.",
         "DESIGN.md section 3 C20"),
}
NOT_YET = "check not yet built in this revision of /verif (planned, see DESIGN.md section 3)"

def main():
    props = [json.loads(l) for l in open(os.path.join(ROOT, "properties.jsonl"))]
    checks, na = [], []
    for p in props:
        pid = p["id"]
        if pid in CHECKS:
            tech, text, note, ref = CHECKS[pid]
            checks.append({
                "property_id": pid,
                "quick_cmd": f"./check {pid} --tier quick",
                "thorough_cmd": f"./check {pid} --tier thorough",
                "evidence_file": f"/verif/evidence/{pid}.json",
                "replay_cmd_template": "./check --replay {path}",
                "engine": "pbt",
                "level_claimed": {"category": "exploration", "text": text, "design_ref": ref},
                "level_note": note,
                "technique": tech,
            })
        else:
            na.append({"property_id": pid, "reason": NOT_YET})
    hooks_commits = []
    hc = os.path.join(ROOT, "tools", "hook_commits.txt")
    if os.path.exists(hc):
        hooks_commits = [l.strip() for l in open(hc) if l.strip()]
    m = {
        "version": 1,
        "setup_cmd": "cd /verif/harness && CARGO_NET_OFFLINE=true cargo build --offline --profile verif",
        "hooks": {
            "guard": "cargo feature __verif (chrono/Cargo.toml, off by default)",
            "enable": "harness/Cargo.toml depends on chrono = { path = \"/repo\", features = [\"serde\", \"__verif\"] }; every ./check run rebuilds from /repo's working tree",
            "baseline_off_cmd": "cd /repo && cargo test --workspace --no-fail-fast --offline",
            "source_commits": hooks_commits,
            "add_only": True,
        },
        "engines": [
            {"name": "pbt", "path": "/verif/harness", "serves_properties": sorted(CHECKS),
             "kind_free_text": "Rust binary: proptest strategies run through explicit TestRunners (fixed seed from VERIF_SEED, no persistence), exhaustive enumerators for finite domains, independent reference models as oracles, shrinking to replay files"},
            {"name": "libfuzzer", "path": "/verif/fuzz", "serves_properties": ["C10", "C11", "C12", "C15", "C16"],
             "kind_free_text": "cargo-fuzz / libFuzzer targets (rfc3339, rfc2822, strftime, parse_any, tzif) that decode bytes into the same structured cases and call the same oracles as the pbt sub-checks; run by the thorough tier with fixed -runs and -seed, 16 jobs; crash artifacts are converted into replay files and re-checked through pbt replay"},
        ],
        "checks": checks,
        "not_applicable": na,
        "notes": "Exit codes: 0 held / 1 VIOLATION / 2 infrastructure (inconclusive). Known findings: /verif/known_findings.json. Failures found at run time are written to /verif/failures/<id>/ (replay with ./check --replay <file>); curated regression cases live in /verif/replays/<id>/ and are replayed first on every run.",
    }
    json.dump(m, open(os.path.join(ROOT, "MANIFEST.json"), "w"), indent=1)
    print("MANIFEST.json:", len(checks), "checks,", len(na), "not_applicable")
main()
