#!/usr/bin/env python3
"""Development-time validation of R-zone (harness/src/refmodel/zone.rs) against CPython's zoneinfo.
Not part of any registered command. Usage: python3 tools/validate_zone_model.py [N zones]"""
import subprocess, sys, os, datetime as dt
from zoneinfo import ZoneInfo
root = "/usr/share/zoneinfo"
names = []
for d, _, fs in os.walk(root):
    for f in fs:
        p = os.path.join(d, f)
        rel = os.path.relpath(p, root)
        if rel.startswith(("posix/", "right/")) or "." in f: continue
        with open(p, "rb") as fh:
            if fh.read(4) == b"TZif": names.append(rel)
names.sort()
n = int(sys.argv[1]) if len(sys.argv) > 1 else len(names)
bad = 0; checked = 0
EPOCH = dt.datetime(1970, 1, 1, tzinfo=dt.timezone.utc)
for name in names[:n]:
    out = subprocess.run(["/verif/target/verif/pbt", "zone-model-dump", os.path.join(root, name)], capture_output=True, text=True).stdout
    try: z = ZoneInfo(name)
    except Exception: continue
    first = None
    for line in out.splitlines():
        u, off, pre = line.split(" ", 2)
        u = int(u); off = int(off)
        if first is None: first = u
        if u <= first + 1: continue   # before the first transition CPython deliberately deviates from RFC 8536
        try: t = EPOCH + dt.timedelta(seconds=u)
        except OverflowError: continue
        po = int(t.astimezone(z).utcoffset().total_seconds())
        checked += 1
        if po != off:
            bad += 1
            if bad < 20: print("MISMATCH", name, u, "model", off, "python", po)
        # preimage: python fold semantics
        w = (t.astimezone(z)).replace(tzinfo=None)
        cands = set()
        for fold in (0, 1):
            wz = w.replace(tzinfo=z, fold=fold)
            uu = int((wz - EPOCH).total_seconds())
            if int(wz.utcoffset().total_seconds()) + uu == int((w - dt.datetime(1970,1,1)).total_seconds()): cands.add(uu)
        mine = set(int(x) for x in pre.strip("[]").split(",") if x.strip())
        if cands != mine:
            bad += 1
            if bad < 20: print("PREIMAGE", name, u, "model", sorted(mine), "python", sorted(cands))
print("zones", min(n, len(names)), "comparisons", checked, "mismatches", bad)
