#!/usr/bin/env python3
"""Regenerates the findings table in DESIGN.md section 5 from known_findings.json."""
import json, os, re
root = os.path.dirname(os.path.dirname(os.path.abspath(__file__)))
d = json.load(open(f"{root}/known_findings.json"))
key = lambda f: (f["status"] != "fixed", int(f["id"][1:]))
rows = []
for f in sorted(d["findings"], key=key):
    disp = f"**fixed** in /repo commit {f['commit']}" if f["status"] == "fixed" else "**known finding** (listed in known_findings.json)"
    rows.append(f"| {f['id']} | {', '.join(f['property'])} | {f['signature']} | {f['what']} | {disp} |")
table = "| # | Property | Signature | What failed | Disposition |\n|---|---|---|---|---|\n" + "\n".join(rows) + "\n"
p = f"{root}/DESIGN.md"
s = open(p).read()
s2, n = re.subn(r"\| # \| Property \| Signature \| What failed \| Disposition \|\n\|---\|---\|---\|---\|---\|\n(?:\|[^\n]*\n)+", lambda _: table, s)
assert n == 1, n
open(p, "w").write(s2)
print(len(rows), "rows")
