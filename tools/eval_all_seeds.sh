#!/bin/bash
# apply every kept seeded change to /repo in turn, run its property's quick check, undo; print a table
cd "$(dirname "$0")/.."
for d in seeded/*/; do
  n=$(basename $d); p=${n%%-*}
  git -C /repo apply "$PWD/$d/patch.diff" || { echo "$n: patch does not apply"; continue; }
  out=$(./check $p --tier quick 2>/dev/null); rc=$?
  git -C /repo checkout -q -- .
  echo "$n rc=$rc $(echo "$out" | grep -E '^FAIL' | head -1 | cut -c1-120)"
done
