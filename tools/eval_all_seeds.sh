#!/bin/bash
# usage: eval_all_seeds.sh [workers=4] [seed-name-glob='*']
# Development aid (not a registered command): applies every kept seeded change in turn to a scratch
# worktree of /repo, builds a scratch copy of the harness against it, runs the quick check that meta.json
# names as the detecting one (first property id in "detected_by") and prints one line per seed.
# Neither /repo nor /verif/harness nor /verif/evidence is touched; everything lives under /tmp/evalseeds
# and is removed at the end. VERIF_SEED is honoured (default 0).
W=${1:-4}; GLOB=${2:-*}; SEED=${VERIF_SEED:-0}
V="$(cd "$(dirname "$0")/.." && pwd)"; S=/tmp/evalseeds
rm -rf $S; mkdir -p $S; git -C /repo worktree prune
ls -d $V/seeded/$GLOB/ | sort > $S/list
worker() {
  k=$1
  git -C /repo worktree add -q --detach $S/repo-$k HEAD || exit 9
  rsync -a --exclude target $V/harness/ $S/h-$k/
  sed -i "s#path = \"/repo\"#path = \"$S/repo-$k\"#" $S/h-$k/Cargo.toml
  printf '[net]\noffline = true\n[build]\ntarget-dir = "%s/target-%s"\n' $S $k > $S/h-$k/.cargo/config.toml
  mkdir -p $S/root-$k; cp -r $V/known_findings.json $V/replays $S/root-$k/
  i=0
  while read d; do
    i=$((i+1)); [ $(( (i-1) % W )) -eq $((k-1)) ] || continue
    n=$(basename $d); p=${n%%-*}
    c=$(python3 -c "import json,re; m=json.load(open('$d/meta.json')); r=re.search(r'C\d\d', m['detected_by']); print(r.group(0) if r else '$p')")
    if grep -q '"detected_by": "NOT DETECTED' $d/meta.json; then echo "$n not claimed (see meta.json)"; continue; fi
    git -C $S/repo-$k checkout -q -- . ; git -C $S/repo-$k apply "$d/patch.diff" || { echo "$n: patch does not apply"; continue; }
    (cd $S/h-$k && cargo build --offline --profile verif --quiet 2>/dev/null) || { echo "$n: harness does not build"; continue; }
    out=$($S/target-$k/verif/pbt run $c --tier quick --seed $SEED --root $S/root-$k 2>/dev/null); rc=$?
    echo "$n check=$c rc=$rc $(echo "$out" | grep -E '^FAIL' | head -1 | cut -c1-120)"
  done < $S/list
  git -C /repo worktree remove --force $S/repo-$k
}
for k in $(seq $W); do worker $k & done
wait
git -C /repo worktree prune; rm -rf $S
