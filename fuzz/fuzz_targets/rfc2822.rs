#![no_main]
use libfuzzer_sys::fuzz_target;

// The semantic oracle lives in the harness library (same code as the proptest-driven check);
// a failing oracle aborts the process so libFuzzer saves the input.
fuzz_target!(|data: &[u8]| {
    if let Err(m) = chrono_verif::fuzzing::run("rfc2822", data) {
        eprintln!("ORACLE FAILURE in target rfc2822: {m}");
        std::process::abort();
    }
});
